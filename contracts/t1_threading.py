"""T1 — band-count arithmetic of src/threading.rs (feature `rayon`).

Oracle (statement of C08): the number of bands never makes the split fail or
panic: no overflow, no division by zero, 1 <= parts <= dimension for every
non-empty image (parts == 1 for empty ones), for ALL u32 sizes.
A result of 0 or 1 means "do not split" (callers test `max_num_parts > 1`); a
first version of this contract demanded r >= 1 and was corrected (false alarm:
2x32 gives 0, which is harmless).
"""

F = "src/threading.rs"

HDR_H = """ensures
        (width == 0 || height == 0) ==> r == 1,
        (width > 0 && height > 0) ==> r <= height,"""
HDR_V = """ensures
        (width == 0 || height == 0) ==> r == 1,
        (width > 0 && height > 0) ==> r <= width,"""

UNIT = dict(
    id="T1",
    title="calculate_max_{h,v}_parts_number: total on u32 x u32, no overflow, no division by zero, r <= dim (r in {0,1} means: do not split)",
    assumptions=["src/threading.rs is compiled only with feature `rayon`, which Kani cannot build offline; the two functions are "
                 "extracted verbatim for Verus, and lifted verbatim (as text) into a cfg(kani) module for the twin"],
    verus=dict(
        prelude="",
        fns=[
            dict(file=F, name="calculate_max_h_parts_number", ret="r", header=HDR_H,
                 inserts=[dict(before="let area", text="""    proof {
        let m = if height >= width { height } else { width };
        assert(height as int * m as int <= 0xffff_ffff * 0xffff_ffff && height as int * m as int >= 1) by(nonlinear_arith)
            requires 1 <= height <= 0xffff_ffff, 1 <= m <= 0xffff_ffff;
        assert(1u64 << 14 == 16384u64) by(bit_vector);
    }"""), dict(after="let area", text="""    proof {
        assert(16384int / (area as int) <= 16384) by(nonlinear_arith) requires area >= 1;
    }""")],
                 obligations=["no u32 overflow in the area", "no division by zero", "r <= height"]),
            dict(file=F, name="calculate_max_v_parts_number", ret="r", header=HDR_V,
                 inserts=[dict(before="let area", text="""    proof {
        let m = if height >= width { height } else { width };
        assert(width as int * m as int <= 0xffff_ffff * 0xffff_ffff && width as int * m as int >= 1) by(nonlinear_arith)
            requires 1 <= width <= 0xffff_ffff, 1 <= m <= 0xffff_ffff;
        assert(1u64 << 14 == 16384u64) by(bit_vector);
    }"""), dict(after="let area", text="""    proof {
        assert(16384int / (area as int) <= 16384) by(nonlinear_arith) requires area >= 1;
    }""")],
                 obligations=["no u32 overflow in the area", "no division by zero", "r <= width"]),
        ],
        twins={"calculate_max_h_parts_number": "t1_h_twin", "calculate_max_v_parts_number": "t1_v_twin"},
    ),
    kani=dict(
        functions=[dict(file=F, fn="calculate_max_h_parts_number"), dict(file=F, fn="calculate_max_v_parts_number")],
        modules=[dict(file="src/lib.rs", name="fv_t1", lift=[dict(file=F, fn="calculate_max_h_parts_number"),
                                                             dict(file=F, fn="calculate_max_v_parts_number")], code="""
    #[kani::proof]
    fn t1_h_twin() {
        let (w, h): (u32, u32) = (kani::any(), kani::any());
        let r = calculate_max_h_parts_number(w, h);
        kani::cover!(h > 70000 && r > 1);
        if w == 0 || h == 0 { assert!(r == 1); } else { assert!(r <= h); }
    }

    #[kani::proof]
    fn t1_v_twin() {
        let (w, h): (u32, u32) = (kani::any(), kani::any());
        let r = calculate_max_v_parts_number(w, h);
        kani::cover!(w > 70000 && r > 1);
        if w == 0 || h == 0 { assert!(r == 1); } else { assert!(r <= w); }
    }
""")],
        harnesses=[
            dict(name="t1_h_twin", kind="complete", covers=1, timeout=600,
                 claim="calculate_max_h_parts_number total for all u32^2 (verbatim lift): no overflow / div by zero, r <= height"),
            dict(name="t1_v_twin", kind="complete", covers=1, timeout=600,
                 claim="calculate_max_v_parts_number total for all u32^2 (verbatim lift): no overflow / div by zero, r <= width"),
        ],
    ),
)
