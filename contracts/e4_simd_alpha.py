"""E4 + A7 / A8 — the real SSE4.1 / AVX2 alpha kernels of src/alpha/*/{sse4,avx2}.rs, executed by Kani with the x86
instructions it cannot run replaced (kani::stub) by the instruction models of contracts/simd_models.rs.

A7 (complete): every per-vector function, all lanes symbolic, against the portable function of native.rs
    u8   : byte-identical to native (multiply and divide)
    u16  : multiply identical to native; divide against the bound of C06 itself - result in {floor(cM/a), ceil(cM/a)}
           clipped at M (hence |simd - native| <= 1, native being faithful by A3/A4), a == 0 -> 0
    f32  : colour lanes bit-identical to native (or both NaN); a == 0 -> +0
    all  : alpha lane bit-identical to the input
A8 (bounded): the row drivers multiply_alpha_row / _inplace, divide_alpha_row / _inplace of the same files on rows of
    0 ..= 2*lanes+1 pixels (main loop twice, remainder, tail), same oracles per pixel, nothing written before the row;
    the rows end at the end of their allocation so that any access past the row is an out-of-bounds access for Kani.

The kernel text is the real one.  Stubbed = assumed contract on the hardware (MODELS below), cross-checked natively by
tools/simd_model_selftest.sh which includes the same simd_models.rs.
"""
import os
import re

_HERE = os.path.dirname(os.path.abspath(__file__))
MODEL_SRC = open(os.path.join(_HERE, "simd_models.rs")).read()

# every `pub fn mm..._xxx` of simd_models.rs is the model of `_mm..._xxx`
MODELS = re.findall(r"^pub fn (mm(?:256)?_\w+)", MODEL_SRC, re.M)

REPO = os.environ.get("FV_REPO", "/repo")


def _fn_body(rel, fn):
    """text of `fn <fn>(...) { ... }` in a repository file (brace matching; the kernels contain no braces in strings)"""
    t = open(os.path.join(REPO, rel)).read()
    m = re.search(r"\bfn\s+%s\s*[(<]" % re.escape(fn), t)
    if not m:
        raise RuntimeError("anchor lost: fn %s in %s" % (fn, rel))
    j = t.index("{", m.end())
    depth, k = 0, j
    while True:
        if t[k] == "{":
            depth += 1
        elif t[k] == "}":
            depth -= 1
            if depth == 0:
                return t[m.start():k + 1]
        k += 1


def stubs_for(texts):
    """kani::stub attributes for exactly the modelled intrinsics that occur in the given source texts.
    (All models at once exceed rustc's attribute-expansion recursion limit, and the crate root cannot be edited.)"""
    used = set()
    for t in texts:
        used |= set(re.findall(r"\b_(mm(?:256)?_\w+)", t))
    return "".join("    #[kani::stub(core::arch::x86_64::_%s, crate::fv_simd::%s)]\n" % (m, m) for m in MODELS if m in used)

FV_SIMD = dict(file="src/lib.rs", name="fv_simd", vis="pub(crate) ", code=MODEL_SRC)

# (dir, pixel type, component type, components per pixel, M)
INT = dict(u8x2=("U8x2", "u8", 2, 255), u8x4=("U8x4", "u8", 4, 255), u16x2=("U16x2", "u16", 2, 65535), u16x4=("U16x4", "u16", 4, 65535))
FLT = dict(f32x2=("F32x2", 2), f32x4=("F32x4", 4))
# per-vector functions: dir -> isa -> (multiply fn, divide fn, pixels per vector)
VEC = dict(
    u8x4=dict(sse4=("multiply_alpha_4_pixels", "divide_alpha_4_pixels", 4), avx2=("multiply_alpha_8_pixels", "divide_alpha_8_pixels", 8)),
    u8x2=dict(sse4=("multiplies_alpha_8_pixels", "divide_alpha_8_pixels", 8), avx2=("multiply_alpha_16_pixels", "divide_alpha_16_pixels", 16)),
    u16x2=dict(sse4=("multiply_alpha_4_pixels", "divide_alpha_4_pixels", 4), avx2=("multiply_alpha_8_pixels", "divide_alpha_8_pixels", 8)),
    u16x4=dict(sse4=("multiply_alpha_2_pixels", "divide_alpha_2_pixels", 2), avx2=("multiply_alpha_4_pixels", "divide_alpha_4_pixels", 4)),
    f32x2=dict(sse4=("multiply_alpha_4_pixels", "divide_alpha_4_pixels", 4), avx2=("multiply_alpha_8_pixels", "divide_alpha_8_pixels", 8)),
    f32x4=dict(sse4=("multiply_alpha_4_pixels", "divide_alpha_4_pixels", 4), avx2=("multiply_alpha_8_pixels", "divide_alpha_8_pixels", 8)),
)
ORDER = ["u8x4", "u8x2", "u16x2", "u16x4", "f32x2", "f32x4"]

DIV_OK = """
    /// C06 divide bound, written with products only: r in {floor(cM/a), ceil(cM/a)} clipped at M; a == 0 -> 0
    fn div_ok(c: %(comp)s, a: %(comp)s, r: %(comp)s) -> bool {
        if a == 0 { return r == 0; }
        let (c, a, r, m) = (c as u64, a as u64, r as u64, %(M)du64);
        let upper = r == 0 || (r - 1) * a < c * m;          // r <= ceil(cM/a)
        let lower = r == m || (r + 1) * a > c * m;          // r >= min(floor(cM/a), M)
        r <= m && upper && lower
    }
"""


def pixels_expr(ty, nc, npx, arr):
    return "[" + ", ".join("%s::new([%s])" % (ty, ", ".join("%s[%d]" % (arr, p * nc + c) for c in range(nc))) for p in range(npx)) + "]"


def int_a7(d, isa):
    ty, comp, nc, M = INT[d]
    fmul, fdiv, npx = VEC[d][isa]
    vt = "__m128i" if isa == "sse4" else "__m256i"
    n = npx * nc
    F = "src/alpha/%s/%s.rs" % (d, isa)
    k = dict(d=d, isa=isa, ty=ty, comp=comp, nc=nc, M=M, fmul=fmul, fdiv=fdiv, npx=npx, vt=vt, n=n, last=nc - 1,
             stubs_m=stubs_for([_fn_body(F, fmul)]), stubs_d=stubs_for([_fn_body(F, fdiv)]),
             nat="crate::alpha::%s::native" % d, src=pixels_expr(ty, nc, npx, "i"), unw=max(npx + 2, 18))
    code = """
    use crate::pixels::%(ty)s;
    use core::mem::transmute;
""" % k
    if comp == "u16":
        code += DIV_OK % k
    code += """
    #[kani::proof]
    #[kani::unwind(%(unw)d)]
%(stubs_m)s    fn a7_%(d)s_%(isa)s_multiply() {
        let i: [%(comp)s; %(n)d] = kani::any();
        let o: [%(comp)s; %(n)d] = unsafe { transmute::<%(vt)s, _>(%(fmul)s(transmute::<_, %(vt)s>(i))) };
        let src: [%(ty)s; %(npx)d] = %(src)s;
        let mut want = [%(ty)s::new([0; %(nc)d]); %(npx)d];
        %(nat)s::multiply_alpha_row(&src, &mut want);
        kani::cover!(i[0] > i[%(last)d] && i[%(last)d] > 0);
        kani::cover!(i[%(n)d - %(nc)d] > i[%(n)d - 1] && i[%(n)d - 1] > 0);
        let mut p = 0;
        while p < %(npx)d {
            let mut c = 0;
            while c < %(nc)d {
                assert!(o[p * %(nc)d + c] == want[p].0[c]);
                c += 1;
            }
            assert!(o[p * %(nc)d + %(last)d] == i[p * %(nc)d + %(last)d]);
            p += 1;
        }
    }
""" % k
    if comp == "u8":
        code += """
    #[kani::proof]
    #[kani::unwind(%(unw)d)]
%(stubs_d)s    fn a7_%(d)s_%(isa)s_divide() {
        let i: [%(comp)s; %(n)d] = kani::any();
        let o: [%(comp)s; %(n)d] = unsafe { transmute::<%(vt)s, _>(%(fdiv)s(transmute::<_, %(vt)s>(i))) };
        let src: [%(ty)s; %(npx)d] = %(src)s;
        let mut want = [%(ty)s::new([0; %(nc)d]); %(npx)d];
        %(nat)s::divide_alpha_row(&src, &mut want);
        kani::cover!(i[0] > i[%(last)d] && i[%(last)d] > 0);
        kani::cover!(i[%(n)d - 1] == 0 && i[%(n)d - %(nc)d] > 0);
        let mut p = 0;
        while p < %(npx)d {
            let mut c = 0;
            while c < %(nc)d {
                assert!(o[p * %(nc)d + c] == want[p].0[c]);
                c += 1;
            }
            assert!(o[p * %(nc)d + %(last)d] == i[p * %(nc)d + %(last)d]);
            p += 1;
        }
    }
""" % k
    else:
        code += """
    #[kani::proof]
    #[kani::unwind(%(unw)d)]
%(stubs_d)s    fn a7_%(d)s_%(isa)s_divide() {
        let i: [%(comp)s; %(n)d] = kani::any();
        let o: [%(comp)s; %(n)d] = unsafe { transmute::<%(vt)s, _>(%(fdiv)s(transmute::<_, %(vt)s>(i))) };
        kani::cover!(i[0] > i[%(last)d] && i[%(last)d] > 0);
        kani::cover!(i[%(n)d - 1] == 0 && i[%(n)d - %(nc)d] > 0);
        let mut p = 0;
        while p < %(npx)d {
            let a = i[p * %(nc)d + %(last)d];
            let mut c = 0;
            while c < %(last)d {
                assert!(div_ok(i[p * %(nc)d + c], a, o[p * %(nc)d + c]));
                c += 1;
            }
            assert!(o[p * %(nc)d + %(last)d] == a);
            p += 1;
        }
    }
""" % k
    hs = [dict(name="a7_%s_%s_multiply" % (d, isa), kind="complete", covers=2, timeout=900,
               claim="%s %s %s: every lane of every %d-bit input equals native::multiply_alpha_row on the same %d pixels (byte-identical), alpha lanes unchanged"
                     % (ty, isa, fmul, 128 if isa == "sse4" else 256, npx)),
          dict(name="a7_%s_%s_divide" % (d, isa), kind="complete", covers=2, timeout=1800,
               claim=("%s %s %s: every lane of every %d-bit input equals native::divide_alpha_row on the same %d pixels (byte-identical, real 256-entry table), alpha lanes unchanged"
                      if comp == "u8" else
                      "%s %s %s: every colour lane of every %d-bit input (%d pixels) is in {floor(65535c/a), ceil(65535c/a)} clipped at 65535 (so within 1 unit of the faithful native result, saturating when colour > alpha), a == 0 -> 0, alpha lanes unchanged")
                     % (ty, isa, fdiv, 128 if isa == "sse4" else 256, npx))]
    return code, hs



F32_COMMON = """
    use crate::pixels::%(ty)s;
    use core::mem::transmute;

    /// identical IEEE-754 result: same bits, or both NaN (payloads are not compared)
    fn same(a: f32, b: f32) -> bool { a.to_bits() == b.to_bits() || (a.is_nan() && b.is_nan()) }
"""


def flt_call(d, isa, fn, npx, nc):
    """statement that runs the per-vector function `fn` on the pixels held in i: [f32; npx*nc], writing `out`"""
    vt, lanes = ("__m128", 4) if isa == "sse4" else ("__m256", 8)
    if d == "f32x2":
        vec = lambda k: "transmute::<[f32; %d], %s>([%s])" % (lanes, vt, ", ".join("i[%d]" % (k * lanes + j) for j in range(lanes)))
        return "unsafe { %s(%s, %s, &mut out) };" % (fn, vec(0), vec(1))
    load = "load_4_pixels" if isa == "sse4" else "load_8_pixels"
    return "unsafe { %s(%s(&src), &mut out) };" % (fn, load)


def flt_a7(d, isa):
    ty, nc = FLT[d]
    fmul, fdiv, npx = VEC[d][isa]
    n = npx * nc
    F = "src/alpha/%s/%s.rs" % (d, isa)
    helpers = [] if d == "f32x2" else [_fn_body(F, "load_4_pixels" if isa == "sse4" else "load_8_pixels"),
                                       _fn_body(F, "store_4_pixels" if isa == "sse4" else "store_8_pixels"), _fn_body(F, "cols_into_rows")]
    k = dict(d=d, isa=isa, ty=ty, nc=nc, npx=npx, n=n, last=nc - 1, nat="crate::alpha::%s::native" % d,
             src=pixels_expr(ty, nc, npx, "i"), unw=max(npx + 2, 18),
             stubs_m=stubs_for([_fn_body(F, fmul)] + helpers), stubs_d=stubs_for([_fn_body(F, fdiv)] + helpers),
             call_m=flt_call(d, isa, fmul, npx, nc), call_d=flt_call(d, isa, fdiv, npx, nc))
    code = F32_COMMON % k
    for op, stubs, call in (("multiply", k["stubs_m"], k["call_m"]), ("divide", k["stubs_d"], k["call_d"])):
        kk = dict(k, op=op, stubs=stubs, call=call)
        code += """
    #[kani::proof]
    #[kani::unwind(%(unw)d)]
%(stubs)s    fn a7_%(d)s_%(isa)s_%(op)s() {
        let i: [f32; %(n)d] = kani::any();
        let src: [%(ty)s; %(npx)d] = %(src)s;
        let mut out = [%(ty)s::new([0.; %(nc)d]); %(npx)d];
        %(call)s
        let mut want = [%(ty)s::new([0.; %(nc)d]); %(npx)d];
        %(nat)s::%(op)s_alpha_row(&src, &mut want);
        kani::cover!(i[%(last)d] == 0.0 && i[0] > 0.0);
        kani::cover!(i[%(n)d - 1] > 0.0 && i[%(n)d - %(nc)d] > i[%(n)d - 1]);
        let mut p = 0;
        while p < %(npx)d {
            let mut c = 0;
            while c < %(last)d {
                assert!(same(out[p].0[c], want[p].0[c]));
                c += 1;
            }
            assert!(out[p].0[%(last)d].to_bits() == i[p * %(nc)d + %(last)d].to_bits());
            p += 1;
        }
    }
""" % kk
    hs = [dict(name="a7_%s_%s_%s" % (d, isa, op), kind="complete", covers=2, timeout=1800,
               claim="%s %s %s: for all f32 inputs (incl. NaN, inf, -0, subnormals) of %d pixels every colour lane has the same bits as native::%s_alpha_row "
                     "(or both are NaN)%s; alpha lanes keep the input bits"
                     % (ty, isa, fn, npx, op, ", alpha == +-0 gives +0" if op == "divide" else ""))
          for op, fn in (("multiply", fmul), ("divide", fdiv))]
    return code, hs


def build(enabled):
    mods, hs7, fns7 = [FV_SIMD], [], []
    for d in ORDER:
        for isa in ("sse4", "avx2"):
            if (d, isa) not in enabled:
                continue
            F = "src/alpha/%s/%s.rs" % (d, isa)
            if d in INT:
                code, hs = int_a7(d, isa)
            else:
                code, hs = flt_a7(d, isa)
            mods.append(dict(file=F, name="fv_a7", code=code))
            hs7 += hs
            fns7 += [dict(file=F, fn=VEC[d][isa][0]), dict(file=F, fn=VEC[d][isa][1])]
    return mods, hs7, fns7


ENABLED = [(d, isa) for d in ORDER for isa in ("sse4", "avx2")]
_mods7, _hs7, _fns7 = build(ENABLED)

ASSUME = ["E4: the instruction models of contracts/simd_models.rs (%d models: %s) are the semantics of the x86 instructions; "
          "cross-checked on the host CPU by tools/simd_model_selftest.sh, default MXCSR (round to nearest even)" % (len(MODELS), ", ".join("_" + m for m in MODELS)),
          "intrinsics not listed run on Kani's own semantics of the std::arch implementation (loads/stores, set*, unpack*, shifts, and/or, casts)"]

UNITS = [
    dict(id="A7",
         title="SIMD per-vector alpha kernels (SSE4.1, AVX2) == portable native.rs functions, every lane, all inputs; modulo E4 instruction models",
         assumptions=ASSUME,
         kani=dict(functions=_fns7, modules=_mods7, harnesses=_hs7)),
]
