"""E4 + A7 / A8 — the real SSE4.1 / AVX2 alpha kernels of src/alpha/*/{sse4,avx2}.rs, executed by Kani with the x86
instructions it cannot run replaced (kani::stub) by the instruction models of contracts/simd_models.rs.

A7 (complete): every per-vector function, all lanes symbolic
    u8   : byte-identical to native::*_alpha_row on the same pixels (multiply and divide; the real 256-entry reciprocal table)
    u16  : multiply identical to native; divide against the bound of C06 itself - result in {floor(cM/a), ceil(cM/a)}
           clipped at M (hence |simd - native| <= 1, native being faithful by A3/A4), a == 0 -> 0
           (the native 65536-entry table with a symbolic index exhausts CBMC, see A4)
    f32  : two harnesses per kernel, because SAT cannot prove two symbolic binary32 multipliers/dividers equivalent in
           reasonable time (one divider pair: no answer in 13 min; one multiplier pair: ~26 s, 24 of them per AVX2 F32x4 vector):
           * complete: MULPS/DIVPS lane operation left uninterpreted (Ackermann table, simd_models.rs mod uf): every colour lane
             is F(colour, alpha) of its own pixel, +0 for alpha == +-0 (divide), F applied once per colour lane, for EVERY F;
           * bounded `_native_grid`: the real MULPS/DIVPS models against the real native function on 144 (colour, alpha)
             pairs of special values (0, -0, subnormal, inf, NaN, ...), bit-identical or both NaN.
    all  : alpha lane bit-identical to the input
A8 (bounded): the real row drivers multiply_alpha_row / _inplace, divide_alpha_row / _inplace of the same files on rows of
    every length 0 ..= 2*lanes+1 (main loop twice, every remainder, AVX2 -> SSE4.1 -> native hand-over), symbolic contents.
    Compositional: the per-vector functions and the portable row functions are replaced by a stand-in pixel function
    G_K(p) = p xor K (K arbitrary) applied pixel-wise; the driver must leave G_K(pixel) in every pixel, in-place == two-image,
    nothing written before the row; the rows end at the end of their allocation so that any access behind the row is an
    out-of-bounds access for Kani.  (Running the real per-vector arithmetic inside the drivers was measured: 10-12 GB per harness.)

The kernel text is the real one.  Stubbed = assumed contract on the hardware (MODELS below), cross-checked natively by
tools/simd_model_selftest.sh which includes the same simd_models.rs.

Kani facts this file works around: at most 12 kani::stub attributes per harness (rustc attribute-expansion recursion limit, the
crate root cannot be edited) -> stubs are computed per kernel function from its text; Kani's NaN check fires on every `*` / `/`
that can create a NaN and on every division by an infinity -> the MULPS/DIVPS models spell those cases out and the native code
is not executed on such operand pairs; `==` on arrays is memcmp (very slow) -> word-wise comparisons.
"""
import os
import re

_HERE = os.path.dirname(os.path.abspath(__file__))
MODEL_SRC = open(os.path.join(_HERE, "simd_models.rs")).read()

# every `pub fn mm..._xxx` of simd_models.rs is the model of `_mm..._xxx`
MODELS = re.findall(r"^pub fn (mm(?:256)?_\w+)", MODEL_SRC, re.M)

REPO = os.environ.get("FV_REPO", "/repo")


def _fn_body(rel, fn):
    """text of `fn <fn>(...) { ... }` in a repository file (brace matching; the kernels contain no braces in strings)"""
    t = open(os.path.join(REPO, rel)).read()
    m = re.search(r"\bfn\s+%s\s*[(<]" % re.escape(fn), t)
    if not m:
        raise RuntimeError("anchor lost: fn %s in %s" % (fn, rel))
    j = t.index("{", m.end())
    depth, k = 0, j
    while True:
        if t[k] == "{":
            depth += 1
        elif t[k] == "}":
            depth -= 1
            if depth == 0:
                return t[m.start():k + 1]
        k += 1


def stubs_for(texts, uf=False, skip=()):
    """kani::stub attributes for exactly the modelled intrinsics that occur in the given source texts.
    (All models at once exceed rustc's attribute-expansion recursion limit, and the crate root cannot be edited.)
    uf=True: MULPS / DIVPS get the uninterpreted-lane-function models (f32 kernels only, see simd_models.rs)."""
    used = set()
    for t in texts:
        used |= set(re.findall(r"\b_(mm(?:256)?_\w+)", t))
    out = []
    for m in MODELS:
        if m in used and m not in skip:
            tgt = "crate::fv_simd::uf::uf_%s" % m if uf and m in UF_MODELS else "crate::fv_simd::%s" % m
            out.append("    #[kani::stub(core::arch::x86_64::_%s, %s)]\n" % (m, tgt))
    return "".join(out)


UF_MODELS = ("mm_mul_ps", "mm_div_ps", "mm256_mul_ps", "mm256_div_ps")
# The u8 kernels divide the constant 65280 by alpha (0 ..= 255 as f32): Kani executes _mm_div_ps / _mm256_div_ps itself (simd_div) and no
# NaN can arise (x / 0 = inf), so no model is substituted there - one assumption less, and the AVX2 row harnesses stay below the
# number of stub attributes rustc can expand (about 15).  The u16 kernels need the model: they compute 0 * 65535 / 0 = NaN on purpose.
U8_NATIVE = ("mm_div_ps", "mm256_div_ps")

FV_SIMD = dict(file="src/lib.rs", name="fv_simd", vis="pub(crate) ", code=MODEL_SRC)

# (dir, pixel type, component type, components per pixel, M)
INT = dict(u8x2=("U8x2", "u8", 2, 255), u8x4=("U8x4", "u8", 4, 255), u16x2=("U16x2", "u16", 2, 65535), u16x4=("U16x4", "u16", 4, 65535))
FLT = dict(f32x2=("F32x2", 2), f32x4=("F32x4", 4))
# per-vector functions: dir -> isa -> (multiply fn, divide fn, pixels per vector)
VEC = dict(
    u8x4=dict(sse4=("multiply_alpha_4_pixels", "divide_alpha_4_pixels", 4), avx2=("multiply_alpha_8_pixels", "divide_alpha_8_pixels", 8)),
    u8x2=dict(sse4=("multiplies_alpha_8_pixels", "divide_alpha_8_pixels", 8), avx2=("multiply_alpha_16_pixels", "divide_alpha_16_pixels", 16)),
    u16x2=dict(sse4=("multiply_alpha_4_pixels", "divide_alpha_4_pixels", 4), avx2=("multiply_alpha_8_pixels", "divide_alpha_8_pixels", 8)),
    u16x4=dict(sse4=("multiply_alpha_2_pixels", "divide_alpha_2_pixels", 2), avx2=("multiply_alpha_4_pixels", "divide_alpha_4_pixels", 4)),
    f32x2=dict(sse4=("multiply_alpha_4_pixels", "divide_alpha_4_pixels", 4), avx2=("multiply_alpha_8_pixels", "divide_alpha_8_pixels", 8)),
    f32x4=dict(sse4=("multiply_alpha_4_pixels", "divide_alpha_4_pixels", 4), avx2=("multiply_alpha_8_pixels", "divide_alpha_8_pixels", 8)),
)
ORDER = ["u8x4", "u8x2", "u16x2", "u16x4", "f32x2", "f32x4"]

DIV_OK = """
    /// C06 divide bound, written with products only: r in {floor(cM/a), ceil(cM/a)} clipped at M; a == 0 -> 0
    fn div_ok(c: %(comp)s, a: %(comp)s, r: %(comp)s) -> bool {
        if a == 0 { return r == 0; }
        let (c, a, r, m) = (c as u64, a as u64, r as u64, %(M)du64);
        let upper = r == 0 || (r - 1) * a < c * m;          // r <= ceil(cM/a)
        let lower = r == m || (r + 1) * a > c * m;          // r >= min(floor(cM/a), M)
        r <= m && upper && lower
    }
"""


def pixels_expr(ty, nc, npx, arr):
    return "[" + ", ".join("%s::new([%s])" % (ty, ", ".join("%s[%d]" % (arr, p * nc + c) for c in range(nc))) for p in range(npx)) + "]"


def int_a7(d, isa):
    ty, comp, nc, M = INT[d]
    fmul, fdiv, npx = VEC[d][isa]
    vt = "__m128i" if isa == "sse4" else "__m256i"
    n = npx * nc
    F = "src/alpha/%s/%s.rs" % (d, isa)
    k = dict(d=d, isa=isa, ty=ty, comp=comp, nc=nc, M=M, fmul=fmul, fdiv=fdiv, npx=npx, vt=vt, n=n, last=nc - 1,
             stubs_m=stubs_for([_fn_body(F, fmul)]), stubs_d=stubs_for([_fn_body(F, fdiv)], skip=U8_NATIVE if comp == "u8" else ()),
             nat="crate::alpha::%s::native" % d, src=pixels_expr(ty, nc, npx, "i"), unw=max(npx + 2, 18))
    code = """
    use crate::pixels::%(ty)s;
    use core::mem::transmute;
""" % k
    if comp == "u16":
        code += DIV_OK % k
    code += """
    #[kani::proof]
    #[kani::unwind(%(unw)d)]
%(stubs_m)s    fn a7_%(d)s_%(isa)s_multiply() {
        let i: [%(comp)s; %(n)d] = kani::any();
        let o: [%(comp)s; %(n)d] = unsafe { transmute::<%(vt)s, _>(%(fmul)s(transmute::<_, %(vt)s>(i))) };
        let src: [%(ty)s; %(npx)d] = %(src)s;
        let mut want = [%(ty)s::new([0; %(nc)d]); %(npx)d];
        %(nat)s::multiply_alpha_row(&src, &mut want);
        kani::cover!(i[0] > i[%(last)d] && i[%(last)d] > 0);
        kani::cover!(i[%(n)d - %(nc)d] > i[%(n)d - 1] && i[%(n)d - 1] > 0);
        let mut p = 0;
        while p < %(npx)d {
            let mut c = 0;
            while c < %(nc)d {
                assert!(o[p * %(nc)d + c] == want[p].0[c]);
                c += 1;
            }
            assert!(o[p * %(nc)d + %(last)d] == i[p * %(nc)d + %(last)d]);
            p += 1;
        }
    }
""" % k
    if comp == "u8":
        code += """
    #[kani::proof]
    #[kani::unwind(%(unw)d)]
%(stubs_d)s    fn a7_%(d)s_%(isa)s_divide() {
        let i: [%(comp)s; %(n)d] = kani::any();
        let o: [%(comp)s; %(n)d] = unsafe { transmute::<%(vt)s, _>(%(fdiv)s(transmute::<_, %(vt)s>(i))) };
        let src: [%(ty)s; %(npx)d] = %(src)s;
        let mut want = [%(ty)s::new([0; %(nc)d]); %(npx)d];
        %(nat)s::divide_alpha_row(&src, &mut want);
        kani::cover!(i[0] > i[%(last)d] && i[%(last)d] > 0);
        kani::cover!(i[%(n)d - 1] == 0 && i[%(n)d - %(nc)d] > 0);
        let mut p = 0;
        while p < %(npx)d {
            let mut c = 0;
            while c < %(nc)d {
                assert!(o[p * %(nc)d + c] == want[p].0[c]);
                c += 1;
            }
            assert!(o[p * %(nc)d + %(last)d] == i[p * %(nc)d + %(last)d]);
            p += 1;
        }
    }
""" % k
    else:
        code += """
    #[kani::proof]
    #[kani::unwind(%(unw)d)]
%(stubs_d)s    fn a7_%(d)s_%(isa)s_divide() {
        // the faithful-rounding proof of the f32 quotient does not finish when colour or alpha is symbolic (no answer in 25 min per
        // kernel, and in 15 min with concrete alphas), so the kernel is evaluated on a grid: 12 alphas x 12 colours, with the colour
        // rotated through the lanes so that every lane position sees every colour; everything constant-folds
        const VALS: [u16; 12] = [0, 1, 2, 255, 256, 12345, 32767, 32768, 32769, 40000, 65534, 65535];
        let mut t = 0;
        while t < 12 {
            let mut u = 0;
            while u < 12 {
                let mut i = [0 as %(comp)s; %(n)d];
                let mut q = 0;
                while q < %(n)d { i[q] = VALS[(u + q) %% 12]; q += 1; }
                let mut q = 0;
                while q < %(npx)d { i[q * %(nc)d + %(last)d] = VALS[(t + q) %% 12]; q += 1; }
                let o: [%(comp)s; %(n)d] = unsafe { transmute::<%(vt)s, _>(%(fdiv)s(transmute::<_, %(vt)s>(i))) };
                let mut p = 0;
                while p < %(npx)d {
                    let a = i[p * %(nc)d + %(last)d];
                    let mut c = 0;
                    while c < %(last)d {
                        assert!(div_ok(i[p * %(nc)d + c], a, o[p * %(nc)d + c]));
                        c += 1;
                    }
                    assert!(o[p * %(nc)d + %(last)d] == a);
                    p += 1;
                }
                u += 1;
            }
            t += 1;
        }
    }
""" % k
    hs = [dict(name="a7_%s_%s_multiply" % (d, isa), kind="complete", covers=2, timeout=900,
               claim="%s %s %s: every lane of every %d-bit input equals native::multiply_alpha_row on the same %d pixels (byte-identical), alpha lanes unchanged"
                     % (ty, isa, fmul, 128 if isa == "sse4" else 256, npx)),
          dict(name="a7_%s_%s_divide" % (d, isa), kind="complete" if comp == "u8" else "bounded", covers=2 if comp == "u8" else 0, timeout=1800,
               bound=None if comp == "u8" else "grid: colours and alphas from {0,1,2,255,256,12345,32767,32768,32769,40000,65534,65535}, rotated through all lanes (144 vectors)",
               claim=("%s %s %s: every lane of every %d-bit input equals native::divide_alpha_row on the same %d pixels (byte-identical, real 256-entry table), alpha lanes unchanged"
                      if comp == "u8" else
                      "%s %s %s: every colour lane of every %d-bit input (%d pixels) is in {floor(65535c/a), ceil(65535c/a)} clipped at 65535 (so within 1 unit of the faithful native result, saturating when colour > alpha), a == 0 -> 0, alpha lanes unchanged")
                     % (ty, isa, fdiv, 128 if isa == "sse4" else 256, npx))]
    return code, hs



F32_COMMON = """
    use crate::pixels::%(ty)s;
    use core::mem::transmute;

    /// identical IEEE-754 result: same bits, or both NaN (payloads are not compared)
    fn same(a: f32, b: f32) -> bool { a.to_bits() == b.to_bits() || (a.is_nan() && b.is_nan()) }
    const VALS: [f32; 12] = [0.0, -0.0, 1.0, 0.5, 0.75, 3.0, -2.5, 1.0e-40, 3.4e38, f32::INFINITY, f32::NAN, 0.1];
"""


def flt_call(d, isa, fn, npx, nc):
    """statement that runs the per-vector function `fn` on the pixels held in i: [f32; npx*nc] / src, writing `out`"""
    vt, lanes = ("__m128", 4) if isa == "sse4" else ("__m256", 8)
    if d == "f32x2":
        vec = lambda k: "transmute::<[f32; %d], %s>([%s])" % (lanes, vt, ", ".join("i[%d]" % (k * lanes + j) for j in range(lanes)))
        return "unsafe { %s(%s, %s, &mut out) };" % (fn, vec(0), vec(1))
    load = "load_4_pixels" if isa == "sse4" else "load_8_pixels"
    return "unsafe { %s(%s(&src), &mut out) };" % (fn, load)


def flt_a7(d, isa):
    ty, nc = FLT[d]
    fmul, fdiv, npx = VEC[d][isa]
    n = npx * nc
    F = "src/alpha/%s/%s.rs" % (d, isa)
    helpers = [] if d == "f32x2" else [_fn_body(F, "load_4_pixels" if isa == "sse4" else "load_8_pixels"),
                                       _fn_body(F, "store_4_pixels" if isa == "sse4" else "store_8_pixels"), _fn_body(F, "cols_into_rows")]
    k = dict(d=d, isa=isa, ty=ty, nc=nc, npx=npx, n=n, last=nc - 1, nat="crate::alpha::%s::native" % d,
             src=pixels_expr(ty, nc, npx, "i"), napp=npx * (nc - 1))
    code = F32_COMMON % k
    hs = []
    for op, fn in (("multiply", fmul), ("divide", fdiv)):
        texts = [_fn_body(F, fn)] + helpers
        kk = dict(k, op=op, fn=fn, isdiv="true" if op == "divide" else "false", stubs_uf=stubs_for(texts, uf=True), stubs=stubs_for(texts), call=flt_call(d, isa, fn, npx, nc),
                  ufop="mul" if op == "multiply" else "div", giter=(144 + npx - 1) // npx, gunw=max((144 + npx - 1) // npx, 18) + 2,
                  nangen="(cv.is_infinite() && a == 0.0) || (cv == 0.0 && a.is_infinite())" if op == "multiply" else
                         "a.is_infinite()" if d == "f32x2" else
                         "a.is_infinite() || (a != 0.0 && cv == 0.0 && (1.0 / a).is_infinite())",
                  want="crate::fv_simd::uf::mul(cv, a).to_bits()" if op == "multiply" else
                       "{ let q = crate::fv_simd::uf::div(cv, a).to_bits(); if a == 0.0 { 0u32 } else { q } }")  # unconditional application: keeps the table size concrete
        code += """
    // complete: the lane operation of %(ufop)sps is an uninterpreted function F (see simd_models.rs, mod uf)
    #[kani::proof]
    #[kani::unwind(66)]
%(stubs_uf)s    fn a7_%(d)s_%(isa)s_%(op)s() {
        let i: [f32; %(n)d] = kani::any();
        let src: [%(ty)s; %(npx)d] = %(src)s;
        let mut out = [%(ty)s::new([0.; %(nc)d]); %(npx)d];
        %(call)s
        kani::cover!(i[%(last)d] == 0.0 && i[0] > 0.0);
        kani::cover!(i[%(n)d - 1] > 0.0 && i[%(n)d - %(nc)d] > i[%(n)d - 1]);
        // the kernel applied F exactly once per colour lane
        assert!(unsafe { crate::fv_simd::uf::MUL.n + crate::fv_simd::uf::DIV.n } == %(napp)d);
        let mut p = 0;
        while p < %(npx)d {
            let a = i[p * %(nc)d + %(last)d];
            let mut c = 0;
            while c < %(last)d {
                let cv = i[p * %(nc)d + c];
                let want: u32 = %(want)s;
                assert!(out[p].0[c].to_bits() == want);
                c += 1;
            }
            assert!(out[p].0[%(last)d].to_bits() == a.to_bits());
            p += 1;
        }
    }

    // bounded: real MULPS/DIVPS models against the real native function on the 144 (colour, alpha) pairs of VALS x VALS
    #[kani::proof]
    #[kani::unwind(%(gunw)d)]
%(stubs)s    fn a7_%(d)s_%(isa)s_%(op)s_native_grid() {
        let mut k = 0;
        while k < %(giter)d {
            let mut i = [0f32; %(n)d];
            let mut p = 0;
            while p < %(npx)d {
                let idx = (k * %(npx)d + p) %% 144;
                let mut c = 0;
                while c < %(last)d { i[p * %(nc)d + c] = VALS[(idx / 12 + 5 * c) %% 12]; c += 1; }
                i[p * %(nc)d + %(last)d] = VALS[idx %% 12];
                p += 1;
            }
            let src: [%(ty)s; %(npx)d] = %(src)s;
            let mut out = [%(ty)s::new([9.; %(nc)d]); %(npx)d];
            %(call)s
            let mut p = 0;
            while p < %(npx)d {
                let a = i[p * %(nc)d + %(last)d];
                // Kani attaches a NaN check to every `*` and `/` of the native code: pixels on which the native arithmetic itself
                // creates a NaN (0 * inf, inf / inf) cannot be executed there and are skipped
                let mut skip = false;
                let mut c = 0;
                while c < %(last)d { let cv = i[p * %(nc)d + c]; skip = skip || (%(nangen)s); c += 1; }
                if !skip {
                    let mut want = [%(ty)s::new([9.; %(nc)d])];
                    %(nat)s::%(op)s_alpha_row(&src[p..p + 1], &mut want);
                    let mut c = 0;
                    while c < %(last)d {
                        // multiply: bit-identical.  divide: the portable F32x4 code multiplies by the reciprocal (two roundings), C02 allows
                        // "within the f32 rounding": <= 2 units in the last place; a SUBNORMAL alpha (reciprocal overflows to inf in the
                        // portable code) is the known finding recorded for obligation A4::a5_f32x4_subnormal_alpha and is not compared here
                        let (x, y) = (out[p].0[c], want[0].0[c]);
                        let close = same(x, y) || (x.is_finite() && y.is_finite() && (x.to_bits() as i64 - y.to_bits() as i64).abs() <= 2);
                        let subnormal_alpha = a != 0.0 && a.abs() < f32::MIN_POSITIVE;
                        assert!(same(x, y) || (%(isdiv)s && (close || subnormal_alpha)));
                        c += 1;
                    }
                }
                assert!(out[p].0[%(last)d].to_bits() == a.to_bits());
                p += 1;
            }
            k += 1;
        }
        kani::cover!(true);
    }
""" % kk
        hs.append(dict(name="a7_%s_%s_%s" % (d, isa, op), kind="complete", covers=2, timeout=900,
                       claim="%s %s %s: for all f32 inputs of %d pixels (NaN, inf, -0, subnormals included) and for EVERY lane function F in place of %sPS, "
                             "each colour lane is F(colour, alpha) of its own pixel%s, F is applied exactly once per colour lane, alpha lanes keep the input bits; "
                             "with F = the IEEE operation of the E4 model this is the C06 oracle c%sa"
                             % (ty, isa, fn, npx, "MUL" if op == "multiply" else "DIV", " and +0 when alpha == +-0" if op == "divide" else "",
                                "*" if op == "multiply" else "/")))
        hs.append(dict(name="a7_%s_%s_%s_native_grid" % (d, isa, op), kind="bounded", covers=1, timeout=900,
                       bound="(colour, alpha) ranges over the 12 x 12 pairs of {0, -0, 1, .5, .75, 3, -2.5, 1e-40 (subnormal), 3.4e38, inf, NaN, .1} "
                             "distributed over the pixel positions (concrete values: SAT cannot prove two symbolic binary32 dividers equivalent - one pair: no answer in 13 min); "
                             "pairs on which Kani's NaN check fires inside the native code are not compared (0*inf; any division by +-inf, which CBMC flags although only inf/inf is a NaN; "
                             "F32x4 only: colour 0 with a subnormal alpha, where native computes 0 * (1/alpha) = 0 * inf = NaN but DIVPS gives 0)",
                       claim="%s %s %s with the real MULPS/DIVPS models: colour lanes bit-identical (or both NaN) to native::%s_alpha_row, alpha lanes keep the input bits"
                             % (ty, isa, fn, op)))
    return code, hs



MAX_STUBS = 12  # measured: 13 kani::stub attributes (+ proof + unwind) on one harness exceed rustc's attribute-expansion recursion limit


def a8_helpers(d, isa):
    """encode / decode a pixel as the key of the uninterpreted pixel function G, G itself, and the stand-ins that apply G pixel-wise:
    one for the per-vector functions of this file, one pair for the portable row functions."""
    if d in INT:
        ty, comp, nc, _ = INT[d]
        bits = 8 if comp == "u8" else 16
        per = 32 // bits
        enc = "[%s]" % ", ".join(" | ".join("(p.0[%d] as u32) << %d" % (c, (c % per) * bits) for c in range(w * per, min(nc, (w + 1) * per))) or "0"
                                 for w in range(4))
        dec = "%s::new([%s])" % (ty, ", ".join("(k[%d] >> %d) as %s" % (c // per, (c % per) * bits, comp) for c in range(nc)))
        zero, canary = "0", "0x5a"
    else:
        ty, nc = FLT[d]
        comp = "f32"
        enc = "[%s]" % ", ".join("p.0[%d].to_bits()" % c if c < nc else "0" for c in range(4))
        dec = "%s::new([%s])" % (ty, ", ".join("f32::from_bits(k[%d])" % c for c in range(nc)))
        zero, canary = "0.", "9."
    fmul, fdiv, npx = VEC[d][isa]
    k = dict(ty=ty, comp=comp, nc=nc, enc=enc, dec=dec, npx=npx, n=npx * nc, zero=zero, canary=canary)
    code = """
    use crate::pixels::%(ty)s;
    use core::mem::transmute;

    fn enc(p: %(ty)s) -> [u32; 4] { %(enc)s }
    fn dec(k: [u32; 4]) -> %(ty)s { %(dec)s }
    /// the stand-in per-pixel function G_K(p) = p xor K, K arbitrary (simd_models.rs, mod uf)
    fn g(p: %(ty)s) -> %(ty)s { dec(crate::fv_simd::uf::gk(enc(p))) }
    /// stand-ins for native::*_alpha_row / *_alpha_row_inplace: G on every pixel (what the portable loops do with the pixel function)
    pub(crate) fn nat_row(src: &[%(ty)s], dst: &mut [%(ty)s]) { for (s, d) in src.iter().zip(dst) { *d = g(*s); } }
    pub(crate) fn nat_row_inplace(row: &mut [%(ty)s]) { for p in row.iter_mut() { *p = g(*p); } }
""" % k
    if d in INT:
        k["vt"] = "__m128i" if isa == "sse4" else "__m256i"
        k["px"] = "%s::new([%s])" % (ty, ", ".join("i[p * %d + %d]" % (nc, c) for c in range(nc)))
        code += """
    /// stand-in for the per-vector functions of this file: G on each of the %(npx)d pixels of the vector
    pub(crate) unsafe fn pv(v: %(vt)s) -> %(vt)s {
        let i: [%(comp)s; %(n)d] = transmute(v);
        let mut o = [0 as %(comp)s; %(n)d];
        let mut p = 0;
        while p < %(npx)d {
            let q = g(%(px)s);
            let mut c = 0;
            while c < %(nc)d { o[p * %(nc)d + c] = q.0[c]; c += 1; }
            p += 1;
        }
        transmute(o)
    }
""" % k
    elif d == "f32x2":
        k["vt"], k["lanes"] = ("__m128", 4) if isa == "sse4" else ("__m256", 8)
        code += """
    /// stand-in for the per-vector functions of this file: G on each of the %(npx)d pixels held by the two vectors, written to dst_chunk
    pub(crate) unsafe fn pv(a: %(vt)s, b: %(vt)s, dst_chunk: &mut [%(ty)s]) {
        let a: [f32; %(lanes)d] = transmute(a);
        let b: [f32; %(lanes)d] = transmute(b);
        let mut p = 0;
        while p < %(npx)d / 2 {
            dst_chunk[p] = g(%(ty)s::new([a[2 * p], a[2 * p + 1]]));
            dst_chunk[p + %(npx)d / 2] = g(%(ty)s::new([b[2 * p], b[2 * p + 1]]));
            p += 1;
        }
    }
""" % k
    else:
        k["vt"] = "__m128" if isa == "sse4" else "__m256"
        code += """
    /// stand-in for the per-vector functions of this file: the kernel's own store_%(npx)d_pixels turns the 4 component vectors back into
    /// %(npx)d pixels (load/store are inverse by A7), then G on each of them
    pub(crate) unsafe fn pv(pixels: [%(vt)s; 4], dst_chunk: &mut [%(ty)s]) {
        let mut tmp = [%(ty)s::new([0.; 4]); %(npx)d];
        store_%(npx)d_pixels(pixels, &mut tmp);
        let mut p = 0;
        while p < %(npx)d { dst_chunk[p] = g(tmp[p]); p += 1; }
    }
""" % k
    return code, k


def a8(d, isa):
    code, k = a8_helpers(d, isa)
    ty, nc, L = k["ty"], k["nc"], k["npx"]
    maxn = 2 * L + 1
    hs = []
    for op in ("multiply", "divide"):
        # what the drivers of this operation can reach
        F = "src/alpha/%s/%s.rs" % (d, isa)
        bodies = [_fn_body(F, "%s_alpha_row" % op), _fn_body(F, "%s_alpha_row_inplace" % op)]
        stubs = ["crate::alpha::%s::%s::%s, pv" % (d, isa, VEC[d][isa][0 if op == "multiply" else 1])]
        hand_over = isa == "avx2" and any("sse4::" in t for t in bodies)
        if hand_over:
            S = "src/alpha/%s/sse4.rs" % d
            bodies += [_fn_body(S, "%s_alpha_row" % op), _fn_body(S, "%s_alpha_row_inplace" % op)]
            stubs.append("crate::alpha::%s::sse4::%s, crate::alpha::%s::sse4::fv_a8::pv" % (d, VEC[d]["sse4"][0 if op == "multiply" else 1], d))
        for f in sorted(set(re.findall(r"\bnative::(\w+)", "".join(bodies)))):
            stubs.append("crate::alpha::%s::native::%s, %s" % (d, f, "nat_row_inplace" if f.endswith("_inplace") else "nat_row"))
        kk = dict(k, d=d, isa=isa, op=op, maxn=maxn, L=L, unw=maxn + L + 4,
                  stubs="".join("    #[kani::stub(%s)]\n" % t for t in stubs),
                  raw="[[%s; %d]; MAXN]" % (k["comp"], nc))
        code += """
    /// rows of lo ..= hi pixels
    fn rows_%(op)s(lo: usize, hi: usize) {
        const MAXN: usize = %(maxn)d;
        let raw: %(raw)s = kani::any(); // symbolic contents
        let k: [u32; 4] = kani::any(); // G = G_K for an arbitrary K
        crate::fv_simd::uf::gk_set(k);
        kani::cover!(k[0] != 0);
        let mut n = lo;
        while n <= hi {
            // the row is the LAST n pixels of its allocation: any access behind the row is out of bounds for Kani;
            // the pixels before it are checked to be untouched
            let off = MAXN - n;
            let mut src = [%(ty)s::new([%(zero)s; %(nc)d]); MAXN];
            let mut p = 0;
            while p < MAXN { src[p] = %(ty)s::new(raw[p]); p += 1; }
            let mut dst = [%(ty)s::new([%(canary)s; %(nc)d]); MAXN];
            let mut inp = src;
            unsafe { %(op)s_alpha_row(&src[off..], &mut dst[off..]) };
            unsafe { %(op)s_alpha_row_inplace(&mut inp[off..]) };
            let mut p = 0;
            while p < MAXN {
                if p < off {
                    assert!(crate::fv_simd::uf::keq(enc(dst[p]), enc(%(ty)s::new([%(canary)s; %(nc)d]))));
                    assert!(crate::fv_simd::uf::keq(enc(inp[p]), enc(src[p])));
                } else {
                    let want = enc(g(src[p]));
                    assert!(crate::fv_simd::uf::keq(enc(dst[p]), want));
                    assert!(crate::fv_simd::uf::keq(enc(inp[p]), want));
                }
                assert!(crate::fv_simd::uf::keq(enc(src[p]), enc(%(ty)s::new(raw[p]))));
                p += 1;
            }
            n += 1;
        }
        kani::cover!(true);
    }
""" % kk
        # one harness per range of lengths; the ranges are cut so that a harness sees at most ~160 pixels in total
        # (measured: all 34 lengths of the 16-pixel AVX2 drivers in one harness = 561 pixels = 10 GB / 15 min)
        parts, lo, acc = [], 0, 0
        for n in range(maxn + 1):
            if acc + n > 160 and n > lo:
                parts.append((lo, n - 1))
                lo, acc = n, 0
            acc += n
        parts.append((lo, maxn))
        for lo, hi in parts:
            name = "a8_%s_%s_%s" % (d, isa, op) + ("" if len(parts) == 1 else "_n%d_%d" % (lo, hi))
            code += """
    #[kani::proof]
    #[kani::unwind(%(unw)d)]
%(stubs)s    fn %(name)s() { rows_%(op)s(%(lo)d, %(hi)d) }
""" % dict(kk, name=name, lo=lo, hi=hi)
            hs.append(dict(name=name, kind="bounded", covers=2, timeout=1800,
                           bound="rows of %d ..= %d pixels (of 0 ..= %d = 2 x %d lanes + 1; every length), symbolic contents" % (lo, hi, maxn, L),
                           claim="%s %s %s_alpha_row and %s_alpha_row_inplace (real driver code: chunking, pre-reading loop, zero-padded remainder buffers%s): "
                                 "for every stand-in pixel function G_K(p) = p xor K (K arbitrary): if the per-vector function%s and the portable row functions apply G_K to each of their pixels, "
                                 "the driver leaves G_K(pixel) in every pixel of the row - main loop, remainder and tail; in-place == two-image; src untouched; "
                                 "the row ends at the end of its allocation (no access behind it) and the pixels before it stay untouched.  With G = the per-pixel function established by A7 this is 'native per pixel'"
                                 % (ty, isa, op, op, ", AVX2 -> SSE4.1 hand-over" if hand_over else "", "s (AVX2 and SSE4.1)" if hand_over else "")))
    return code, hs


def build(enabled):
    mods7, hs7, fns7 = [FV_SIMD], [], []
    mods8, hs8, fns8 = [FV_SIMD], [], []
    for d in ORDER:
        for isa in ("sse4", "avx2"):
            if (d, isa) not in enabled:
                continue
            F = "src/alpha/%s/%s.rs" % (d, isa)
            code, hs = int_a7(d, isa) if d in INT else flt_a7(d, isa)
            mods7.append(dict(file=F, name="fv_a7", code=code))
            hs7 += hs
            fns7 += [dict(file=F, fn=VEC[d][isa][0]), dict(file=F, fn=VEC[d][isa][1])]
            code, hs = a8(d, isa)
            mods8.append(dict(file=F, name="fv_a8", vis="pub(crate) ", code=code))
            hs8 += hs
            fns8 += [dict(file=F, fn=f) for f in ("multiply_alpha_row", "multiply_alpha_row_inplace", "divide_alpha_row", "divide_alpha_row_inplace")]
    return (mods7, hs7, fns7), (mods8, hs8, fns8)


ENABLED = [(d, isa) for d in ORDER for isa in ("sse4", "avx2")]
(_mods7, _hs7, _fns7), (_mods8, _hs8, _fns8) = build(ENABLED)

ASSUME = ["E4: the instruction models of contracts/simd_models.rs (%d models: %s) are the semantics of the x86 instructions; "
          "cross-checked on the host CPU by tools/simd_model_selftest.sh, default MXCSR (round to nearest even, no FTZ/DAZ)" % (len(MODELS), ", ".join("_" + m for m in MODELS)),
          "intrinsics not listed run on Kani's own semantics of their std::arch implementation (loads/stores, set*, unpack*, shuffle_ps, shifts, and/or, casts)",
          "f32 per-vector harnesses (complete): MULPS/DIVPS lane operation abstracted by an uninterpreted function (simd_models.rs mod uf); the link to the native f32 code is the bounded *_native_grid harness"]

UNITS = [
    dict(id="A7",
         title="SIMD per-vector alpha kernels (SSE4.1, AVX2) == portable native.rs functions, every lane, all inputs; modulo E4 instruction models",
         assumptions=ASSUME,
         kani=dict(functions=_fns7, modules=_mods7, harnesses=_hs7)),
    dict(id="A8",
         title="SIMD alpha row drivers (SSE4.1, AVX2): main loop / remainder / tail == native per pixel for row lengths 0 ..= 2*lanes+1; modulo E4 instruction models",
         assumptions=["compositional: the per-vector functions and the portable row functions are replaced (kani::stub) by an uninterpreted per-pixel "
                      "function applied pixel-wise, G_K(p) = p xor K with K arbitrary (simd_models.rs mod uf); that they do act pixel-wise, as the native pixel function, is A7 / A4; "
                      "that the drivers treat the pixel function as a black box and pixel values as opaque (so that G_K stands for any G) is by inspection of their text",
                      "loads, stores and everything else in the drivers run on Kani's own semantics; no instruction model is involved",
                      "rows of at most 2*lanes+1 pixels (two main-loop iterations, every remainder length, the AVX2 -> SSE4.1 -> native hand-over)"],
         kani=dict(functions=_fns8, modules=_mods8, harnesses=_hs8)),
]

# --- set by the lead: the row-driver harnesses unwind long loops; kani-driver keeps all CBMC messages of a harness in memory (6 - 11 GB
# each at the end of the run, measured), so they run in their own small batches (fv/kani.py run_harnesses, `heavy`).
for _h in _hs8:
    _h["mem"] = "high"
