"""G5c — split_by_height{,_mut} specialisations of TypedImageRef / TypedImage (src/images/typed_image.rs): exact tiling of the
pixel buffer for ALL u32 arguments (Verus, statement slice).

The bodies are verbatim; the pixel buffer is abstracted by its (offset, length) - stand-in type FvSlice with the methods the body
calls (split_at / split_at_mut / borrow / borrow_mut, precondition of split_at: mid <= len, as in std) - and the image constructors
by stand-ins whose precondition is G3's acceptance predicate (len >= width * height), so that `.unwrap()` cannot fire.
"""

FT = "src/images/typed_image.rs"

PRELUDE = r"""
pub struct NonZeroU32 { pub v: u32 }
impl NonZeroU32 {
    pub open spec fn wf(self) -> bool { self.v > 0 }
    pub fn get(self) -> (r: u32) requires self.wf() ensures r == self.v, r > 0 { self.v }
}
pub open spec fn min_int(a: int, b: int) -> int { if a < b { a } else { b } }
pub open spec fn part_pos(start: int, size: int, parts: int, k: int) -> int { start + k * (size / parts) + min_int(k, size % parts) }
pub open spec fn part_len(size: int, parts: int, k: int) -> int { size / parts + if k < size % parts { 1int } else { 0int } }

/// a slice of the pixel buffer, abstracted by its offset and length (in pixels)
#[derive(Clone, Copy)]
pub struct FvSlice { pub off: usize, pub len: usize }
impl FvSlice {
    pub fn split_at(self, mid: usize) -> (r: (FvSlice, FvSlice))
        requires mid <= self.len, self.off + self.len <= usize::MAX,          // std: panics if mid > len
        ensures r.0 == (FvSlice { off: self.off, len: mid }), r.1 == (FvSlice { off: (self.off + mid) as usize, len: (self.len - mid) as usize }),
    { (FvSlice { off: self.off, len: mid }, FvSlice { off: self.off + mid, len: self.len - mid }) }
    pub fn split_at_mut(self, mid: usize) -> (r: (FvSlice, FvSlice))
        requires mid <= self.len, self.off + self.len <= usize::MAX,
        ensures r.0 == (FvSlice { off: self.off, len: mid }), r.1 == (FvSlice { off: (self.off + mid) as usize, len: (self.len - mid) as usize }),
    { (FvSlice { off: self.off, len: mid }, FvSlice { off: self.off + mid, len: self.len - mid }) }
    pub fn borrow(self) -> (r: FvSlice) ensures r == self { self }
    pub fn borrow_mut(self) -> (r: FvSlice) ensures r == self { self }
}

/// a returned part: `height` rows of `width` pixels starting at pixel offset `off` of the parent buffer
pub struct FvPart { pub width: u32, pub height: u32, pub off: usize, pub len: usize }
#[derive(Debug)]
pub struct InvalidPixelsSize;

/// stand-ins for the constructors (contract = G3: Ok <=> len >= width * height)
pub struct TypedImageRef { pub width: u32, pub height: u32, pub pixels: FvSlice }
pub struct TypedImage { pub width: u32, pub height: u32, pub pixels: FvSlice }
impl TypedImageRef {
    pub fn new(width: u32, height: u32, pixels: FvSlice) -> (r: Result<FvPart, InvalidPixelsSize>)
        ensures r.is_ok() <==> pixels.len >= width as int * height as int,
                r.is_ok() ==> r.unwrap() == (FvPart { width, height, off: pixels.off, len: pixels.len }),
    {
        proof { assert(width as int * height as int <= 0xffff_ffff * 0xffff_ffff) by(nonlinear_arith) requires width <= 0xffff_ffff, height <= 0xffff_ffff; }
        if (pixels.len as u64) < (width as u64) * (height as u64) { Err(InvalidPixelsSize) } else { Ok(FvPart { width, height, off: pixels.off, len: pixels.len }) }
    }
    pub open spec fn inv(&self) -> bool { self.pixels.len >= self.width as int * self.height as int && self.pixels.off + self.pixels.len <= usize::MAX }
    fn height(&self) -> (r: u32) ensures r == self.height { self.height }
}
impl TypedImage {
    pub fn from_pixels_slice(width: u32, height: u32, pixels: FvSlice) -> (r: Result<FvPart, InvalidPixelsSize>)
        ensures r.is_ok() <==> pixels.len >= width as int * height as int,
                r.is_ok() ==> r.unwrap() == (FvPart { width, height, off: pixels.off, len: pixels.len }),
    {
        proof { assert(width as int * height as int <= 0xffff_ffff * 0xffff_ffff) by(nonlinear_arith) requires width <= 0xffff_ffff, height <= 0xffff_ffff; }
        if (pixels.len as u64) < (width as u64) * (height as u64) { Err(InvalidPixelsSize) } else { Ok(FvPart { width, height, off: pixels.off, len: pixels.len }) }
    }
    pub open spec fn inv(&self) -> bool { self.pixels.len >= self.width as int * self.height as int && self.pixels.off + self.pixels.len <= usize::MAX }
    fn height(&self) -> (r: u32) ensures r == self.height { self.height }
}

/// exact tiling of rows [start, start+size) of a buffer with row stride `w` starting at pixel offset `off0`
pub open spec fn tiling_px(v: Seq<FvPart>, w: int, off0: int, start: int, size: int, parts: int) -> bool {
    &&& v.len() == parts
    &&& forall|k: int| 0 <= k < parts ==> {
        &&& (#[trigger] v[k]).width == w
        &&& v[k].height == part_len(size, parts, k)
        &&& v[k].off == off0 + part_pos(start, size, parts, k) * w
        &&& v[k].len == v[k].height * w }
    &&& part_pos(start, size, parts, parts) == start + size
}
"""


def spec(view, name, within, mutable):
    me = "old(self)" if mutable else "self"
    frame = "\n            *final(self) == *old(self)," if mutable else ""
    hdr = """requires height.wf(), num_parts.wf(), %(me)s.inv(),
        ensures
            r.is_none() <==> !(num_parts.v <= height.v && height.v <= %(me)s.height && start_row as int <= %(me)s.height - height.v),
            r.is_some() ==> tiling_px(r.unwrap()@, %(me)s.width as int, %(me)s.pixels.off as int, start_row as int, height.v as int, num_parts.v as int),%(frame)s""" % locals()
    pre0 = """        proof {
            let w = self.width as int;
            assert(height as int == (height as int / num_parts as int) * num_parts as int + height as int % num_parts as int) by(nonlinear_arith) requires num_parts > 0;
            assert(step >= 1) by(nonlinear_arith) requires step == height / num_parts, height >= num_parts, num_parts > 0;
            assert((start_row as int + height as int) * w <= w * self.height as int) by(nonlinear_arith)
                requires start_row as int + height as int <= self.height as int, w >= 0;
            assert(start_row as int * w <= (start_row as int + height as int) * w) by(nonlinear_arith)
                requires height >= 0, w >= 0, start_row >= 0;
            assert(start_row as int * w >= 0) by(nonlinear_arith) requires start_row >= 0, w >= 0;
            assert(part_pos(start_row as int, height as int, num_parts as int, 0) == start_row as int) by(nonlinear_arith)
                requires part_pos(start_row as int, height as int, num_parts as int, 0) == start_row as int + 0 * (height as int / num_parts as int) + min_int(0, height as int % num_parts as int),
                         height as int % num_parts as int >= 0;
        }"""
    pre = """        proof {
            let _fix_type: Seq<FvPart> = res@;
        }"""
    inv = """invariant
                num_parts > 0, height >= num_parts, height <= self.height, start_row as int <= self.height - height, self.inv(),
                row_size == self.width as usize,
                step as int == height as int / num_parts as int, step >= 1,
                height as int == step as int * num_parts as int + height as int %% num_parts as int,
                modulo as int == (if (_k as int) < height as int %% num_parts as int { height as int %% num_parts as int - _k as int } else { 0int }),
                top as int == part_pos(start_row as int, height as int, num_parts as int, _k as int),
                top as int <= start_row as int + height as int,
                remains_pixels.off as int == self.pixels.off as int + top as int * self.width as int,
                remains_pixels.len as int == self.pixels.len as int - top as int * self.width as int,
                (start_row as int + height as int) * self.width as int <= self.pixels.len as int,
                res@.len() == _k,%(frame_inv)s
                forall|j: int| 0 <= j < _k ==> {
                    &&& (#[trigger] res@[j]).width == self.width
                    &&& res@[j].height == part_len(height as int, num_parts as int, j)
                    &&& res@[j].off == self.pixels.off as int + part_pos(start_row as int, height as int, num_parts as int, j) * self.width as int
                    &&& res@[j].len == res@[j].height * self.width as int },""" % dict(frame_inv="\n                *self == *old(self)," if mutable else "")
    body_hint = """            proof {
                let k = _k as int; let m = height as int % num_parts as int; let s = step as int; let n = num_parts as int; let w = self.width as int;
                assert(0 <= m < n) by(nonlinear_arith) requires m == height as int % n, n > 0;
                assert(k * s + min_int(k, m) + s + (if k < m { 1int } else { 0int }) <= s * n + m) by(nonlinear_arith)
                    requires 0 <= k < n, 0 <= m < n, s >= 1;
                assert((k + 1) * s == k * s + s) by(nonlinear_arith);
                let ph = s + (if k < m { 1int } else { 0int });
                // the part fits into what remains: (top + ph) * w <= (start + height) * w <= len
                assert((top as int + ph) * w <= (start_row as int + height as int) * w) by(nonlinear_arith)
                    requires top as int + ph <= start_row as int + height as int, w >= 0;
                assert((top as int + ph) * w == top as int * w + ph * w) by(nonlinear_arith);
                assert(ph * w >= 0 && ph * w <= 0xffff_ffff * 0xffff_ffff) by(nonlinear_arith) requires 0 <= ph <= 0xffff_ffff, 0 <= w <= 0xffff_ffff;
            }"""
    post_hint = """        proof {
            let m = height as int % num_parts as int; let n = num_parts as int;
            assert(0 <= m < n) by(nonlinear_arith) requires m == height as int % n, n > 0;
            assert(n * (height as int / n) == (height as int / n) * n) by(nonlinear_arith);
        }"""
    subst = [
        dict(pattern=r"Option<Vec<impl ImageView(?:Mut)?<Pixel = Self::Pixel>>>", repl="Option<Vec<FvPart>>", why="ghost record instead of the opaque view type"),
        dict(pattern=r"for _ in", repl="for _k in", why="Verus needs a named loop variable for the invariant"),
    ]
    from fv import sources
    has_dbg = "debug_assert!" in sources.src(FT).fn_text(name, within)[0]
    if has_dbg:
        subst.append(dict(pattern=r"debug_assert!", repl="assert", why="checked as a proof obligation"))
    mid_hint = """            proof {
                let w = self.width as int;
                assert(part_height as int * w >= 0 && part_height as int * w <= 0xffff_ffff * 0xffff_ffff) by(nonlinear_arith)
                    requires 0 <= part_height as int <= 0xffff_ffff, 0 <= w <= 0xffff_ffff;
                assert((top as int + part_height as int) * w == top as int * w + part_height as int * w) by(nonlinear_arith);
                assert((top as int + part_height as int) * w <= (start_row as int + height as int) * w) by(nonlinear_arith)
                    requires top as int + part_height as int <= start_row as int + height as int, w >= 0;
            }"""
    return dict(file=FT, name=name, within=within, ret="r", header=hdr, subst=subst,
                wrap_before="impl %s {" % view, wrap_after="}", rename=name + "_" + view.lower(),
                loops=[dict(anchor="for _ in 0..num_parts", text=inv)],
                inserts=[dict(before="let row_size = ", text=pre0), dict(before="for _ in 0..num_parts", text=pre),
                         dict(before="let mut part_height = step;", text=body_hint),
                         dict(before="let parts = remains_pixels", text=mid_hint),
                         dict(before="let image = Typed", text="""            proof {
                let w = self.width as int;
                assert(w * part_height as int == part_height as int * w) by(nonlinear_arith);
                assert(parts.0.len as int == part_height as int * w);
                assert(parts.0.off as int == self.pixels.off as int + top as int * w);
            }"""),
                         dict(before="debug_assert!" if has_dbg else "Some(res)", text=post_hint)],
                obligations=["None <=> not(parts <= size <= height and start <= height - size)",
                             "Some: exactly `parts` images; image k is rows part_pos(k) .. +part_len(k) of the buffer (offset and length in pixels): contiguous, ordered, exact cover, no aliasing",
                             "split_at never panics (mid <= len), the constructor never fails (len >= width*height), no overflow"])


UNIT = dict(
    id="G5c",
    title="TypedImageRef / TypedImage split_by_height{,_mut}: exact tiling of the pixel buffer for all u32 arguments (statement slice)",
    assumptions=["statement slice: the pixel buffer is abstracted by (offset, length); FvSlice::split_at(_mut) carries std's precondition (mid <= len); "
                 "TypedImageRef::new / TypedImage::from_pixels_slice are stand-ins with G3's contract; precondition: the image invariant len >= width*height "
                 "established by the constructors (G3)"],
    verus=dict(
        prelude=PRELUDE,
        fns=[
            spec("TypedImageRef", "split_by_height", r"unsafe impl<'a, P: InnerPixel> ImageView for TypedImageRef<'a, P>", False),
            spec("TypedImage", "split_by_height", r"unsafe impl<'a, P: InnerPixel> ImageView for TypedImage<'a, P>", False),
            spec("TypedImage", "split_by_height_mut", r"unsafe impl<'a, P: InnerPixel> ImageViewMut for TypedImage<'a, P>", True),
        ],
        timeout=600,
    ),
)
