"""K5 — mechanical obligation: the precision dispatch macro `constify_imm8!` (src/convolution/macros.rs) has an arm for every
precision Normalizer16::new can produce inside the panic-free domain of C03 (sum |w| < 4  =>  max weight < 4  =>  precision >= 12,
K4), i.e. 12..=21; arms are parsed from the macro text."""
import re
from fv import sources

F = "src/convolution/macros.rs"


def arms():
    sf = sources.src(F)
    m = re.search(r"macro_rules!\s*constify_imm8\s*\{", sf.masked)
    if not m:
        raise sources.AnchorLost("constify_imm8 macro not found")
    ob = sf.masked.index("{", m.start())
    cb = sources.match_brace(sf.masked, ob)
    body = sf.text[ob:cb]
    mask = re.search(r"match\s*\(\$imm8\)\s*&\s*(0b[01_]+)", body)
    vals = [int(x) for x in re.findall(r"^\s*(\d+)\s*=>", body, re.M)]
    return vals, (int(mask.group(1).replace("_", ""), 2) if mask else None), sf.line_of(m.start())


def obligations():
    try:
        vals, mask, line = arms()
    except sources.AnchorLost as e:
        return [dict(name="K5::constify_imm8_arms", status="inconclusive", claim="dispatch arms parsed", detail=[str(e)])]
    need = list(range(12, 22))
    missing = [p for p in need if p not in vals]
    ok = not missing and mask is not None and all((p & mask) == p for p in need)
    res = [dict(name="K5::constify_imm8_covers_12_to_21", status="discharged" if ok else "failed", checks=len(need),
                claim="constify_imm8! has an arm for every precision 12..=21 (the range reachable when every window has sum|w| < 4) and the "
                      "mask keeps these values: unreachable!() cannot fire in the panic-free domain",
                detail=[] if ok else [dict(description="missing dispatch arm(s) for precision %s (mask %s)" % (missing, mask), file=F, line=line)])]
    return res


def note():
    vals, mask, _ = arms()
    return "arms present: %s; precision 11 has no arm (reachable only for max weight in [4,8), outside the panic-free domain: panics with unreachable!())" % sorted(vals)
