"""G4 / G5b — view contract of the image containers, by address (Kani, bounded sizes).

ViewInv(V): iter_rows(s) / iter_rows_mut(s) yield exactly height-s rows, each of
length width, row i starting at the address of logical pixel (0, s+i) of the parent
buffer.  G5b: split_by_* of the real containers returns sub-views that are, by
address, the consecutive bands of the parent (hence cover-once, no aliasing).

Bound: CONCRETE view sizes (symbolic sizes exhaust memory, DESIGN 9); symbolic crop
origin, start row, buffer slack.  Always reported as bounded.
"""
from common import SUPPORT_MODULE

FT = "src/images/typed_image.rs"
FC = "src/images/typed_cropped_image.rs"

HELPERS = """
    use crate::fv_support::*;
    use crate::pixels::*;
    use crate::images::*;
    use crate::{ImageView, ImageViewMut};
    use std::num::NonZeroU32;

    /// view must expose rows [top+s, top+h) x cols [left, left+w) of the parent buffer at `base` (row stride `stride`)
    fn check_rows<V: ImageView>(view: &V, s: u32, base: *const V::Pixel, stride: usize, left: usize, top: usize, w: u32, h: u32) {
        assert!(view.width() == w && view.height() == h);
        let mut n: u32 = 0;
        for row in view.iter_rows(s) {
            assert!(row.len() == w as usize);
            let want = unsafe { base.add((top + (s + n) as usize) * stride + left) };
            assert!(row.as_ptr() == want);
            n += 1;
        }
        // a zero-width view has no pixels: it may produce no rows at all
        assert!(n == h.saturating_sub(s) || (w == 0 && n == 0));
    }

    fn check_rows_mut<V: ImageViewMut>(view: &mut V, s: u32, base: *const V::Pixel, stride: usize, left: usize, top: usize, w: u32, h: u32) {
        assert!(view.width() == w && view.height() == h);
        let mut n: u32 = 0;
        for row in view.iter_rows_mut(s) {
            assert!(row.len() == w as usize);
            let want = unsafe { base.add((top + (s + n) as usize) * stride + left) };
            assert!(row.as_ptr() == want);
            n += 1;
        }
        assert!(n == h.saturating_sub(s) || (w == 0 && n == 0));
    }
"""


def rows_harness(w, h, slack):
    n = w * h + slack
    return """
    #[kani::proof]
    #[kani::unwind(%(u)d)]
    fn g4_rows_typed_%(w)dx%(h)d_slack%(slack)d() {
        let mut buf = [U8x2::new([0; 2]); %(n)d];
        let base = buf.as_ptr();
        let s: u32 = kani::any();
        kani::assume(s <= %(h)d + 1);
        {
            let img = TypedImageRef::new(%(w)d, %(h)d, &buf).unwrap();
            check_rows(&img, s, base, %(w)d, 0, 0, %(w)d, %(h)d);
        }
        let mut img = TypedImage::from_pixels_slice(%(w)d, %(h)d, &mut buf).unwrap();
        check_rows(&img, s, base, %(w)d, 0, 0, %(w)d, %(h)d);
        check_rows_mut(&mut img, s, base, %(w)d, 0, 0, %(w)d, %(h)d);
    }
""" % dict(w=w, h=h, slack=slack, n=n, u=h + slack // max(w, 1) + 4)


def crop_harness(pw, ph):
    n = pw * ph
    return """
    #[kani::proof]
    #[kani::unwind(%(u)d)]
    fn g4_rows_cropped_%(pw)dx%(ph)d() {
        let mut buf = [U16::new(0); %(n)d];
        let base = buf.as_ptr();
        let (l, t, w, h, s): (u32, u32, u32, u32, u32) = (kani::any(), kani::any(), kani::any(), kani::any(), kani::any());
        kani::assume(s <= h);
        {
            let parent = TypedImageRef::new(%(pw)d, %(ph)d, &buf).unwrap();
            if let Ok(v) = TypedCroppedImage::from_ref(&parent, l, t, w, h) {
                kani::cover!(w == 2 && l == 1);
                check_rows(&v, s, base, %(pw)d, l as usize, t as usize, w, h);
                // nested crop (origin 1,1 inside the first one when it fits)
                if let Ok(v2) = TypedCroppedImage::from_ref(&v, 1, 1, w.saturating_sub(1), h.saturating_sub(1)) {
                    check_rows(&v2, 0, base, %(pw)d, l as usize + 1, t as usize + 1, w - 1, h - 1);
                }
            }
        }
        let mut parent = TypedImage::from_pixels_slice(%(pw)d, %(ph)d, &mut buf).unwrap();
        if let Ok(mut v) = TypedCroppedImageMut::from_ref(&mut parent, l, t, w, h) {
            check_rows(&v, s, base, %(pw)d, l as usize, t as usize, w, h);
            check_rows_mut(&mut v, s, base, %(pw)d, l as usize, t as usize, w, h);
        }
    }
""" % dict(pw=pw, ph=ph, n=n, u=ph + 3)


def split_harness(kind, w, h, size, parts, cstart=None):
    """kind in: ref_h, typed_h, typed_h_mut, typed_w, typed_w_mut, cropped_h, cropped_h_mut, cropped_w, cropped_w_mut"""
    by_h = "_h" in kind
    dim = h if by_h else w
    step, mod = size // parts, size % parts
    cropped = kind.startswith("cropped")
    mutable = kind.endswith("_mut")
    if cropped:
        pw, ph = w + 3, h + 3
        setup = """        let mut buf = [U8::new(0); %d];
        let base = buf.as_ptr();
        let (cl, ct): (u32, u32) = (1, 2);   // concrete (a symbolic crop origin exhausts memory, DESIGN 9) and asymmetric (left != top)
""" % (pw * ph)
        stride = pw
        mk_ref = "let parent = TypedImageRef::new(%d, %d, &buf).unwrap(); let img = TypedCroppedImage::from_ref(&parent, cl, ct, %d, %d).unwrap();" % (pw, ph, w, h)
        mk_mut = "let mut parent = TypedImage::from_pixels_slice(%d, %d, &mut buf).unwrap(); let mut img = TypedCroppedImageMut::from_ref(&mut parent, cl, ct, %d, %d).unwrap();" % (pw, ph, w, h)
        off_l, off_t = 1, 2
    else:
        setup = """        let mut buf = [U8::new(0); %d];
        let base = buf.as_ptr();
""" % (w * h + 1)
        stride = w
        mk_ref = "let img = TypedImageRef::new(%d, %d, &buf).unwrap();" % (w, h) if kind.startswith("ref") else \
                 "let img = TypedImage::from_pixels_slice(%d, %d, &mut buf).unwrap();" % (w, h)
        mk_mut = "let mut img = TypedImage::from_pixels_slice(%d, %d, &mut buf).unwrap();" % (w, h)
        off_l, off_t = 0, 0
    call = "split_by_%s%s" % ("height" if by_h else "width", "_mut" if mutable else "")
    valid = parts <= size <= dim and (cstart is None or cstart <= dim - size)
    if cropped:
        # straight-line checks (iterating the parts / rows generically makes CBMC exhaust memory on the nested impl-Trait views):
        # every part k: its rows, one by one, by address and length, then the iterator must be exhausted
        body = ["            assert!(parts.len() == %d);" % parts]
        pos = cstart
        for k in range(parts):
            ln = step + (1 if k < mod else 0)
            pw_, ph_ = (w, ln) if by_h else (ln, h)
            body.append("            assert!(parts[%d].width() == %d && parts[%d].height() == %d);" % (k, pw_, k, ph_))
            body.append("            {")
            body.append("                let mut it = parts[%d].iter_rows%s(0);" % (k, "_mut" if mutable else ""))
            for r in range(ph_):
                row = off_t + (pos + r if by_h else r)
                col = off_l + (0 if by_h else pos)
                body.append("                let row = it.next().unwrap();")
                body.append("                assert!(row.len() == %d && row.as_ptr() == unsafe { base.add(%d) });" % (pw_, row * stride + col))
            body.append("                assert!(it.next().is_none());")
            body.append("            }")
            pos += ln
        checks = "\n".join(body)
        return """
    #[kani::proof]
    #[kani::unwind(%(u)d)]
    fn g5b_%(kind)s_%(w)dx%(h)d_s%(size)d_p%(parts)d_at%(cs)d() {
%(setup)s        let start: u32 = %(cs)d;
        %(mk)s
        let r = img.%(call)s(start, NonZeroU32::new(%(size)d).unwrap(), NonZeroU32::new(%(parts)d).unwrap());
        assert!(r.is_some() == %(valid)s);
        %(cover)s
        if let Some(mut parts) = r {
%(checks)s
        }
    }
""" % dict(kind=kind, w=w, h=h, size=size, parts=parts, setup=setup, mk=mk_mut if mutable else mk_ref, call=call, cs=cstart,
           valid="true" if valid else "false", cover="kani::cover!(r.is_some());" if valid else "", checks=checks if valid else "            let _ = &mut parts;",
           u=max(w, h) + 3)
    chk = "check_rows_mut(p" if mutable else "check_rows(p"
    it = "parts.iter_mut()" if mutable else "parts.iter()"
    return """
    #[kani::proof]
    #[kani::unwind(%(u)d)]
    fn g5b_%(kind)s_%(w)dx%(h)d_s%(size)d_p%(parts)d() {
%(setup)s        let start: u32 = kani::any();
        kani::assume(start <= %(dim)d);
        %(mk)s
        let r = img.%(call)s(start, NonZeroU32::new(%(size)d).unwrap(), NonZeroU32::new(%(parts)d).unwrap());
        let should = %(parts)d <= %(size)d && %(size)d <= %(dim)d && start <= %(dim)d - %(size)d;
        assert!(r.is_some() == should);
        %(cover)s
        if let Some(mut parts) = r {
            assert!(parts.len() == %(parts)d);
            let mut pos: usize = start as usize;
            let mut k: u32 = 0;
            for p in %(it)s {
                let len: u32 = %(step)d + if k < %(mod)d { 1 } else { 0 };
                %(check)s
                pos += len as usize;
                k += 1;
            }
            assert!(pos == start as usize + %(size)d);
        }
    }
""" % dict(kind=kind, w=w, h=h, size=size, parts=parts, setup=setup, dim=dim, mk=mk_mut if mutable else mk_ref, call=call,
           it=it, step=step, mod=mod, u=max(w, h) + parts + 4, cover="kani::cover!(r.is_some());" if (parts <= size <= dim) else "",
           check=("%s, 0, base, %d, %d, %d + pos, %d, len);" % (chk, stride, off_l, off_t, w)) if by_h else
                 ("%s, 0, base, %d, %d + pos, %d, len, %d);" % (chk, stride, off_l, off_t, h)))


ROWS = [(2, 2, 0), (2, 2, 3), (3, 2, 7), (1, 3, 2), (0, 2, 2), (2, 0, 3)]
CROPS = [(3, 3)]
SPLITS_Q = [("ref_h", 2, 3, 3, 2), ("typed_h", 2, 3, 2, 2), ("typed_h_mut", 2, 3, 3, 2), ("typed_w", 3, 2, 3, 2),
            ("typed_w_mut", 3, 2, 2, 1), ("cropped_h", 2, 3, 3, 2), ("cropped_w_mut", 3, 2, 3, 2), ("cropped_h_mut", 2, 3, 2, 2),
            ("cropped_w", 3, 2, 2, 2), ("ref_h", 2, 3, 2, 3), ("typed_w", 3, 2, 4, 1)]
def _combos(dim):
    res = []
    for size in sorted({1, dim - 1, dim}):
        for parts in sorted({1, 2, size}):
            if size >= 1 and parts >= 1:
                res.append((size, parts))
    return res


SPLITS_T = [(k, w, h, size, parts) for k in ("ref_h", "typed_h", "typed_h_mut", "cropped_h", "cropped_h_mut")
            for (w, h) in ((2, 4),) for (size, parts) in _combos(h)] + \
           [(k, w, h, size, parts) for k in ("typed_w", "typed_w_mut", "cropped_w", "cropped_w_mut")
            for (w, h) in ((4, 2),) for (size, parts) in _combos(w)] + \
           [("ref_h", 1, 5, 5, 3), ("typed_h_mut", 1, 5, 4, 3), ("typed_w_mut", 5, 1, 5, 4), ("typed_w", 5, 1, 3, 2)]

code = HELPERS + "".join(rows_harness(*r) for r in ROWS) + "".join(crop_harness(*c) for c in CROPS)
seen = set()
hs = []
for (w, h, sl) in ROWS:
    hs.append(dict(name="g4_rows_typed_%dx%d_slack%d" % (w, h, sl), kind="bounded", timeout=600, props=["C04", "C05", "C13", "C03"],
                   bound="view %dx%d over a buffer with %d spare pixels; symbolic start row" % (w, h, sl),
                   claim="TypedImageRef / TypedImage iter_rows(s), iter_rows_mut(s): exactly height-s rows of length width at the right addresses"))
for (pw, ph) in CROPS:
    hs.append(dict(name="g4_rows_cropped_%dx%d" % (pw, ph), kind="bounded", timeout=900, covers=1, props=["C04", "C05", "C13", "C03"],
                   bound="parent %dx%d; every accepted (left, top, width, height) symbolic; nested crop at (1,1)" % (pw, ph),
                   claim="TypedCroppedImage / TypedCroppedImageMut (and a nested crop) expose exactly their rectangle of the parent, by address"))
for tier, lst in (("quick", SPLITS_Q), ("thorough", SPLITS_T)):
    for sp in lst:
        dim_ = sp[2] if "_h" in sp[0] else sp[1]
        starts = [None] if not sp[0].startswith("cropped") else sorted({0, max(dim_ - sp[3], 0), max(dim_ - sp[3], 0) + 1})
        for cs in starts:
          nm = "g5b_%s_%dx%d_s%d_p%d" % sp + ("" if cs is None else "_at%d" % cs)
          if nm in seen:
            continue
          seen.add(nm)
          code += split_harness(*sp, cstart=cs)
          valid = sp[4] <= sp[3] <= dim_ and (cs is None or cs <= dim_ - sp[3])
          hs.append(dict(name=nm, kind="bounded", timeout=900, tier=tier, covers=1 if valid else 0, props=["C14", "C08", "C03"],
                       bound="view %dx%d, band size %d, %d parts (concrete); %s%s" % (sp[1], sp[2], sp[3], sp[4], "symbolic start" if cs is None else "start %d (concrete: the cropped compositions exhaust memory with a symbolic start)" % cs, ", view cropped at (left 1, top 2) out of a parent 3 pixels larger in both dimensions" if sp[0].startswith("cropped") else ""),
                       claim="%s: None iff the documented condition; else the parts are, by address and length, the consecutive bands of the parent" % sp[0]))

# the immutable cropped width split of a 4x2 view exceeds the 12 GB memory limit of the runner in < 2 min (11 harnesses, measured in the
# thorough sweep): development-only; the 3x2 instances (quick tier) and the `_mut` 4x2 instances (thorough tier) cover the same code
_OVER_12GB = ('g5b_cropped_w_4x2_s1_p1_at0', 'g5b_cropped_w_4x2_s1_p1_at3', 'g5b_cropped_w_4x2_s3_p1_at0', 'g5b_cropped_w_4x2_s3_p1_at1', 'g5b_cropped_w_4x2_s3_p2_at0', 'g5b_cropped_w_4x2_s3_p2_at1', 'g5b_cropped_w_4x2_s3_p3_at0', 'g5b_cropped_w_4x2_s3_p3_at1', 'g5b_cropped_w_4x2_s4_p1_at0', 'g5b_cropped_w_4x2_s4_p2_at0', 'g5b_cropped_w_4x2_s4_p4_at0')
for _h in hs:
    if _h["name"] in _OVER_12GB:
        _h["tier"] = "dev"

UNIT = dict(
    id="G4",
    title="containers: rows by address (ViewInv) and split_by_* bands by address (G5b)",
    assumptions=["bounded: concrete view sizes as listed per harness; addresses compared as raw pointers inside one allocation"],
    kani=dict(
        functions=[dict(file=FT, fn="iter_rows", within=r"unsafe impl<'a, P: InnerPixel> ImageView for TypedImageRef<'a, P>"),
                   dict(file=FT, fn="iter_rows", within=r"unsafe impl<'a, P: InnerPixel> ImageView for TypedImage<'a, P>"),
                   dict(file=FT, fn="iter_rows_mut"),
                   dict(file=FT, fn="split_by_height", within=r"unsafe impl<'a, P: InnerPixel> ImageView for TypedImageRef<'a, P>"),
                   dict(file=FT, fn="split_by_height", within=r"unsafe impl<'a, P: InnerPixel> ImageView for TypedImage<'a, P>"),
                   dict(file=FT, fn="split_by_height_mut"),
                   dict(file=FC, fn="iter_rows"), dict(file=FC, fn="iter_rows_mut"),
                   dict(file=FC, fn="split_by_height"), dict(file=FC, fn="split_by_width"),
                   dict(file=FC, fn="split_by_height_mut"), dict(file=FC, fn="split_by_width_mut")],
        modules=[SUPPORT_MODULE, dict(file="src/lib.rs", name="fv_g4", code=code)],
        harnesses=hs,
    ),
)
