"""G6 — CropBox::fit_src_into_dst_size (C15), one harness per clause.

Oracle (statement of C15): the box lies inside the source, has the destination's
aspect ratio up to rounding, spans the full source in at least one dimension, and
left/top equal the removed margin times the centering clamped to [0,1].
"""
from common import SUPPORT_MODULE

F = "src/crop_box.rs"

def clause(name, bound, body):
    lim = "" if bound is None else "kani::assume(sw <= %d && sh <= %d && dw <= %d && dh <= %d);" % (bound, bound, bound, bound)
    return """
    #[kani::proof]
    fn %s() {
        let (sw, sh, dw, dh): (u32, u32, u32, u32) = (kani::any(), kani::any(), kani::any(), kani::any());
        kani::assume(sw >= 1 && sh >= 1 && dw >= 1 && dh >= 1 && sw <= 65535 && sh <= 65535 && dw <= 65535 && dh <= 65535);
        %s
        let (cx, cy): (f64, f64) = (kani::any(), kani::any());
        kani::assume(!cx.is_nan() && !cy.is_nan());
        let b = CropBox::fit_src_into_dst_size(sw, sh, dw, dh, Some((cx, cy)));
        let (w, h) = (sw as f64, sh as f64);
%s
    }
""" % (name, lim, body)

POS = """        assert!(b.width > 0. && b.height > 0.);
        assert!(b.width.is_finite() && b.height.is_finite() && b.left.is_finite() && b.top.is_finite());"""
FULL = """        kani::cover!(b.width < w);
        kani::cover!(b.height < h);
        assert!(b.width == w || b.height == h);
        assert!(b.width <= w || b.height <= h);"""
CENTER = """        let (fx, fy) = (cx.clamp(0., 1.), cy.clamp(0., 1.));
        assert!(b.left == (w - b.width) * fx);
        assert!(b.top == (h - b.height) * fy);"""
INSIDE = """        assert!(b.left >= 0. && b.top >= 0.);
        assert!(b.width <= w && b.height <= h);
        assert!(b.left + b.width <= w && b.top + b.height <= h);
        let view = crate::fv_support::FvDims { w: sw, h: sh };
        assert!(CroppedSrcImageView::crop(&view, b).is_ok());"""
ASPECT = """        // cw/ch == dw/dh up to 4 ulp: compare cross products  cw*dh  vs  ch*dw
        let lhs = b.width * dh as f64;
        let rhs = b.height * dw as f64;
        let tol = 8.0 * f64::EPSILON * (if lhs > rhs { lhs } else { rhs });
        assert!((lhs - rhs).abs() <= tol);"""

code = "".join([
    clause("g6_positive", None, POS), clause("g6_full_extent", None, FULL), clause("g6_centering", None, CENTER),
    clause("g6_inside_full", None, INSIDE), clause("g6_aspect_full", None, ASPECT),
]) + """
    // The in-bounds, aspect and centering clauses need the rounding behaviour of a division followed by a multiplication;
    // SAT does not settle them even for sizes <= 255 (no answer in 15 min per clause), so they are evaluated on a grid of
    // concrete sizes and centerings (everything constant-folds).
    const SIZES: [u32; 6] = [1, 2, 3, 7, 255, 65535];
    const CENTER: [f64; 5] = [0.0, 0.5, 0.3, -2.0, 7.5];

    fn grid_row(sw: u32, sh: u32) {
        let (w, h) = (sw as f64, sh as f64);
        let view = crate::fv_support::FvDims { w: sw, h: sh };
        let mut k = 0;
        while k < 6 { let mut l = 0; while l < 6 { let mut c = 0; while c < 5 {
            let (dw, dh) = (SIZES[k], SIZES[l]);
            let (cx, cy) = (CENTER[c], CENTER[(c + 2) % 5]);
            let b = CropBox::fit_src_into_dst_size(sw, sh, dw, dh, Some((cx, cy)));
            // inside
            assert!(b.left >= 0. && b.top >= 0. && b.width > 0. && b.height > 0.);
            assert!(b.left + b.width <= w && b.top + b.height <= h);
            assert!(CroppedSrcImageView::crop(&view, b).is_ok());
            // full extent in one dimension
            assert!(b.width == w || b.height == h);
            // centering: removed margin * clamped centering
            let (fx, fy) = (cx.clamp(0., 1.), cy.clamp(0., 1.));
            assert!(b.left == (w - b.width) * fx && b.top == (h - b.height) * fy);
            // aspect: cw/ch == dw/dh up to 8 ulp (cross products)
            let (lhs, rhs) = (b.width * dh as f64, b.height * dw as f64);
            let tol = 8.0 * f64::EPSILON * (if lhs > rhs { lhs } else { rhs });
            assert!((lhs - rhs).abs() <= tol);
            c += 1; } l += 1; } k += 1; }
    }

    #[kani::proof] #[kani::unwind(8)] fn g6_grid_src_0() { let mut j = 0; while j < 6 { grid_row(SIZES[0], SIZES[j]); j += 1; } }

    #[kani::proof] #[kani::unwind(8)] fn g6_grid_src_1() { let mut j = 0; while j < 6 { grid_row(SIZES[1], SIZES[j]); j += 1; } }

    #[kani::proof] #[kani::unwind(8)] fn g6_grid_src_2() { let mut j = 0; while j < 6 { grid_row(SIZES[2], SIZES[j]); j += 1; } }

    #[kani::proof] #[kani::unwind(8)] fn g6_grid_src_3() { let mut j = 0; while j < 6 { grid_row(SIZES[3], SIZES[j]); j += 1; } }

    #[kani::proof] #[kani::unwind(8)] fn g6_grid_src_4() { let mut j = 0; while j < 6 { grid_row(SIZES[4], SIZES[j]); j += 1; } }

    #[kani::proof] #[kani::unwind(8)] fn g6_grid_src_5() { let mut j = 0; while j < 6 { grid_row(SIZES[5], SIZES[j]); j += 1; } }



    const SIZES2: [u32; 6] = [4, 5, 16, 1000, 4096, 65534];
    const CENTER2: [f64; 5] = [1.0, 0.25, 0.75, 1e-9, 1e300];

    fn grid_row2(sw: u32, sh: u32) {
        let (w, h) = (sw as f64, sh as f64);
        let view = crate::fv_support::FvDims { w: sw, h: sh };
        let mut k = 0;
        while k < 6 { let mut l = 0; while l < 6 { let mut c = 0; while c < 5 {
            let (dw, dh) = (SIZES2[k], SIZES2[l]);
            let (cx, cy) = (CENTER2[c], CENTER2[(c + 2) % 5]);
            let b = CropBox::fit_src_into_dst_size(sw, sh, dw, dh, Some((cx, cy)));
            // inside
            assert!(b.left >= 0. && b.top >= 0. && b.width > 0. && b.height > 0.);
            assert!(b.left + b.width <= w && b.top + b.height <= h);
            assert!(CroppedSrcImageView::crop(&view, b).is_ok());
            // full extent in one dimension
            assert!(b.width == w || b.height == h);
            // centering: removed margin * clamped centering
            let (fx, fy) = (cx.clamp(0., 1.), cy.clamp(0., 1.));
            assert!(b.left == (w - b.width) * fx && b.top == (h - b.height) * fy);
            // aspect: cw/ch == dw/dh up to 8 ulp (cross products)
            let (lhs, rhs) = (b.width * dh as f64, b.height * dw as f64);
            let tol = 8.0 * f64::EPSILON * (if lhs > rhs { lhs } else { rhs });
            assert!((lhs - rhs).abs() <= tol);
            c += 1; } l += 1; } k += 1; }
    }

    #[kani::proof] #[kani::unwind(8)] fn g6_grid2_src_0() { let mut j = 0; while j < 6 { grid_row2(SIZES2[0], SIZES2[j]); j += 1; } }

    #[kani::proof] #[kani::unwind(8)] fn g6_grid2_src_1() { let mut j = 0; while j < 6 { grid_row2(SIZES2[1], SIZES2[j]); j += 1; } }

    #[kani::proof] #[kani::unwind(8)] fn g6_grid2_src_2() { let mut j = 0; while j < 6 { grid_row2(SIZES2[2], SIZES2[j]); j += 1; } }

    #[kani::proof] #[kani::unwind(8)] fn g6_grid2_src_3() { let mut j = 0; while j < 6 { grid_row2(SIZES2[3], SIZES2[j]); j += 1; } }

    #[kani::proof] #[kani::unwind(8)] fn g6_grid2_src_4() { let mut j = 0; while j < 6 { grid_row2(SIZES2[4], SIZES2[j]); j += 1; } }

    #[kani::proof] #[kani::unwind(8)] fn g6_grid2_src_5() { let mut j = 0; while j < 6 { grid_row2(SIZES2[5], SIZES2[j]); j += 1; } }



    #[kani::proof]
    fn g6_zero_sizes() {
        let (sw, sh, dw, dh): (u32, u32, u32, u32) = (kani::any(), kani::any(), kani::any(), kani::any());
        kani::assume(sw == 0 || sh == 0 || dw == 0 || dh == 0);
        let b = CropBox::fit_src_into_dst_size(sw, sh, dw, dh, None);
        assert!(b.left == 0. && b.top == 0. && b.width == sw as f64 && b.height == sh as f64);
    }
"""

UNIT = dict(
    id="G6",
    title="fit_src_into_dst_size: positive, full extent, centering identity (complete); inside / aspect (bounded where SAT does not finish)",
    assumptions=["'inside' and 'aspect' depend on a division-times-multiplication rounding fact that holds because distinct ratios of "
                 "integers <= 65535 differ by >= 2^-32; CaDiCaL does not settle it over the full range within the time box, so these two "
                 "clauses (and the centering identity) are evaluated on a grid of 6^4 concrete size combinations x 5 centerings (bounded) in the quick tier and on a second grid of the same size in the thorough tier; the full-range versions of the three clauses (g6_centering, g6_inside_full, g6_aspect_full) do not terminate within 40 min each and are kept as development-only harnesses (tier 'dev', run by neither tier)"],
    kani=dict(
        functions=[dict(file=F, fn="fit_src_into_dst_size")],
        modules=[SUPPORT_MODULE, dict(file=F, name="fv_g6", code=code)],
        harnesses=[
            dict(name="g6_positive", kind="complete", timeout=600, claim="width > 0, height > 0, all four finite; sizes 1..65535, every non-NaN centering"),
            dict(name="g6_full_extent", kind="complete", covers=2, timeout=600, claim="the box spans the full source in at least one dimension"),
            dict(name="g6_centering", kind="complete", tier="dev", timeout=2400, claim="left == (W - width) * clamp(cx,0,1) and top == (H - height) * clamp(cy,0,1)"),
            dict(name="g6_zero_sizes", kind="complete", timeout=300, claim="a zero source or destination dimension yields the whole source box"),
            dict(name="g6_grid_src_0", kind="bounded", timeout=1500,
                 bound="source width 1 x source heights, destination sizes from {1,2,3,7,255,65535}^3, 5 centering pairs from {0, 0.5, 0.3, -2, 7.5}: 1080 concrete boxes",
                 claim="inside the source (crop() accepts), full extent in one dimension, left/top == margin * clamped centering, aspect within 8 ulp"),
            dict(name="g6_grid_src_1", kind="bounded", timeout=1500,
                 bound="source width 2 x source heights, destination sizes from {1,2,3,7,255,65535}^3, 5 centering pairs from {0, 0.5, 0.3, -2, 7.5}: 1080 concrete boxes",
                 claim="inside the source (crop() accepts), full extent in one dimension, left/top == margin * clamped centering, aspect within 8 ulp"),
            dict(name="g6_grid_src_2", kind="bounded", timeout=1500,
                 bound="source width 3 x source heights, destination sizes from {1,2,3,7,255,65535}^3, 5 centering pairs from {0, 0.5, 0.3, -2, 7.5}: 1080 concrete boxes",
                 claim="inside the source (crop() accepts), full extent in one dimension, left/top == margin * clamped centering, aspect within 8 ulp"),
            dict(name="g6_grid_src_3", kind="bounded", timeout=1500,
                 bound="source width 7 x source heights, destination sizes from {1,2,3,7,255,65535}^3, 5 centering pairs from {0, 0.5, 0.3, -2, 7.5}: 1080 concrete boxes",
                 claim="inside the source (crop() accepts), full extent in one dimension, left/top == margin * clamped centering, aspect within 8 ulp"),
            dict(name="g6_grid_src_4", kind="bounded", timeout=1500,
                 bound="source width 255 x source heights, destination sizes from {1,2,3,7,255,65535}^3, 5 centering pairs from {0, 0.5, 0.3, -2, 7.5}: 1080 concrete boxes",
                 claim="inside the source (crop() accepts), full extent in one dimension, left/top == margin * clamped centering, aspect within 8 ulp"),
            dict(name="g6_grid_src_5", kind="bounded", timeout=1500,
                 bound="source width 65535 x source heights, destination sizes from {1,2,3,7,255,65535}^3, 5 centering pairs from {0, 0.5, 0.3, -2, 7.5}: 1080 concrete boxes",
                 claim="inside the source (crop() accepts), full extent in one dimension, left/top == margin * clamped centering, aspect within 8 ulp"),
            dict(name="g6_grid2_src_0", kind="bounded", tier="thorough", timeout=1500,
                 bound="source width 4 x source heights, destination sizes from {4,5,16,1000,4096,65534}^3, 5 centering pairs from {1, 0.25, 0.75, 1e-9, 1e300}: 1080 concrete boxes",
                 claim="inside the source (crop() accepts), full extent in one dimension, left/top == margin * clamped centering, aspect within 8 ulp"),
            dict(name="g6_grid2_src_1", kind="bounded", tier="thorough", timeout=1500,
                 bound="source width 5 x source heights, destination sizes from {4,5,16,1000,4096,65534}^3, 5 centering pairs from {1, 0.25, 0.75, 1e-9, 1e300}: 1080 concrete boxes",
                 claim="inside the source (crop() accepts), full extent in one dimension, left/top == margin * clamped centering, aspect within 8 ulp"),
            dict(name="g6_grid2_src_2", kind="bounded", tier="thorough", timeout=1500,
                 bound="source width 16 x source heights, destination sizes from {4,5,16,1000,4096,65534}^3, 5 centering pairs from {1, 0.25, 0.75, 1e-9, 1e300}: 1080 concrete boxes",
                 claim="inside the source (crop() accepts), full extent in one dimension, left/top == margin * clamped centering, aspect within 8 ulp"),
            dict(name="g6_grid2_src_3", kind="bounded", tier="thorough", timeout=1500,
                 bound="source width 1000 x source heights, destination sizes from {4,5,16,1000,4096,65534}^3, 5 centering pairs from {1, 0.25, 0.75, 1e-9, 1e300}: 1080 concrete boxes",
                 claim="inside the source (crop() accepts), full extent in one dimension, left/top == margin * clamped centering, aspect within 8 ulp"),
            dict(name="g6_grid2_src_4", kind="bounded", tier="thorough", timeout=1500,
                 bound="source width 4096 x source heights, destination sizes from {4,5,16,1000,4096,65534}^3, 5 centering pairs from {1, 0.25, 0.75, 1e-9, 1e300}: 1080 concrete boxes",
                 claim="inside the source (crop() accepts), full extent in one dimension, left/top == margin * clamped centering, aspect within 8 ulp"),
            dict(name="g6_grid2_src_5", kind="bounded", tier="thorough", timeout=1500,
                 bound="source width 65534 x source heights, destination sizes from {4,5,16,1000,4096,65534}^3, 5 centering pairs from {1, 0.25, 0.75, 1e-9, 1e300}: 1080 concrete boxes",
                 claim="inside the source (crop() accepts), full extent in one dimension, left/top == margin * clamped centering, aspect within 8 ulp"),
            dict(name="g6_inside_full", kind="complete", tier="dev", timeout=2400, claim="inside clause, sizes 1..65535"),
            dict(name="g6_aspect_full", kind="complete", tier="dev", timeout=2400, claim="aspect clause, sizes 1..65535"),
        ],
    ),
)
