"""G6 — CropBox::fit_src_into_dst_size (C15), one harness per clause.

Oracle (statement of C15): the box lies inside the source, has the destination's
aspect ratio up to rounding, spans the full source in at least one dimension, and
left/top equal the removed margin times the centering clamped to [0,1].
"""
from common import SUPPORT_MODULE

F = "src/crop_box.rs"

def clause(name, bound, body):
    lim = "" if bound is None else "kani::assume(sw <= %d && sh <= %d && dw <= %d && dh <= %d);" % (bound, bound, bound, bound)
    return """
    #[kani::proof]
    fn %s() {
        let (sw, sh, dw, dh): (u32, u32, u32, u32) = (kani::any(), kani::any(), kani::any(), kani::any());
        kani::assume(sw >= 1 && sh >= 1 && dw >= 1 && dh >= 1 && sw <= 65535 && sh <= 65535 && dw <= 65535 && dh <= 65535);
        %s
        let (cx, cy): (f64, f64) = (kani::any(), kani::any());
        kani::assume(!cx.is_nan() && !cy.is_nan());
        let b = CropBox::fit_src_into_dst_size(sw, sh, dw, dh, Some((cx, cy)));
        let (w, h) = (sw as f64, sh as f64);
%s
    }
""" % (name, lim, body)

POS = """        assert!(b.width > 0. && b.height > 0.);
        assert!(b.width.is_finite() && b.height.is_finite() && b.left.is_finite() && b.top.is_finite());"""
FULL = """        kani::cover!(b.width < w);
        kani::cover!(b.height < h);
        assert!(b.width == w || b.height == h);
        assert!(b.width <= w || b.height <= h);"""
CENTER = """        let (fx, fy) = (cx.clamp(0., 1.), cy.clamp(0., 1.));
        assert!(b.left == (w - b.width) * fx);
        assert!(b.top == (h - b.height) * fy);"""
INSIDE = """        assert!(b.left >= 0. && b.top >= 0.);
        assert!(b.width <= w && b.height <= h);
        assert!(b.left + b.width <= w && b.top + b.height <= h);
        let view = crate::fv_support::FvDims { w: sw, h: sh };
        assert!(CroppedSrcImageView::crop(&view, b).is_ok());"""
ASPECT = """        // cw/ch == dw/dh up to 4 ulp: compare cross products  cw*dh  vs  ch*dw
        let lhs = b.width * dh as f64;
        let rhs = b.height * dw as f64;
        let tol = 8.0 * f64::EPSILON * (if lhs > rhs { lhs } else { rhs });
        assert!((lhs - rhs).abs() <= tol);"""

code = "".join([
    clause("g6_positive", None, POS), clause("g6_full_extent", None, FULL), clause("g6_centering", None, CENTER),
    clause("g6_inside_255", 255, INSIDE), clause("g6_aspect_255", 255, ASPECT),
    clause("g6_inside_full", None, INSIDE), clause("g6_aspect_full", None, ASPECT),
]) + """
    #[kani::proof]
    fn g6_zero_sizes() {
        let (sw, sh, dw, dh): (u32, u32, u32, u32) = (kani::any(), kani::any(), kani::any(), kani::any());
        kani::assume(sw == 0 || sh == 0 || dw == 0 || dh == 0);
        let b = CropBox::fit_src_into_dst_size(sw, sh, dw, dh, None);
        assert!(b.left == 0. && b.top == 0. && b.width == sw as f64 && b.height == sh as f64);
    }
"""

UNIT = dict(
    id="G6",
    title="fit_src_into_dst_size: positive, full extent, centering identity (complete); inside / aspect (bounded where SAT does not finish)",
    assumptions=["'inside' and 'aspect' depend on a division-times-multiplication rounding fact that holds because distinct ratios of "
                 "integers <= 65535 differ by >= 2^-32; CaDiCaL does not settle it over the full range within the time box, so these two "
                 "clauses are checked with all four sizes <= 255 (bounded) in the quick tier and attempted on the full range in thorough"],
    kani=dict(
        functions=[dict(file=F, fn="fit_src_into_dst_size")],
        modules=[SUPPORT_MODULE, dict(file=F, name="fv_g6", code=code)],
        harnesses=[
            dict(name="g6_positive", kind="complete", timeout=600, claim="width > 0, height > 0, all four finite; sizes 1..65535, every non-NaN centering"),
            dict(name="g6_full_extent", kind="complete", covers=2, timeout=600, claim="the box spans the full source in at least one dimension"),
            dict(name="g6_centering", kind="complete", timeout=900, claim="left == (W - width) * clamp(cx,0,1) and top == (H - height) * clamp(cy,0,1)"),
            dict(name="g6_zero_sizes", kind="complete", timeout=300, claim="a zero source or destination dimension yields the whole source box"),
            dict(name="g6_inside_255", kind="bounded", bound="all four sizes <= 255, every non-NaN centering", timeout=900,
                 claim="left, top >= 0; right <= W; bottom <= H; crop() accepts the box"),
            dict(name="g6_aspect_255", kind="bounded", bound="all four sizes <= 255", timeout=900,
                 claim="width/height == dst_w/dst_h within 8 ulp (cross products)"),
            dict(name="g6_inside_full", kind="complete", tier="thorough", timeout=2400, claim="inside clause, sizes 1..65535"),
            dict(name="g6_aspect_full", kind="complete", tier="thorough", timeout=2400, claim="aspect clause, sizes 1..65535"),
        ],
    ),
)
