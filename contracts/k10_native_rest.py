"""K10 — the remaining native convolution kernels == the convolution formula.

Integer kernels (u8x2, u8x3: Normalizer16 / u16x2, u16x3, u16x4, vertical_u16: Normalizer32): oracle `fv_oracle16` / `fv_oracle32`
of k7_kernels.SUPPORT, channel by channel:
   dst = clamp( floor( (2^(p-1) + sum_i k_i * s_i) / 2^p ), 0, max )
Floating kernels (i32x1, f32x1..f32x4, vertical_f32): oracle = the sequential sum `ss = 0.0; ss += s_i as f64 * k_i` in window order
written out in the harness (the kernels use exactly this association: bit-exact comparison), followed by `as f32`
(f32 kernels) or "round to nearest, ties away from zero, saturating, NaN -> 0" (i32x1).
"""
import k7_kernels

SUPPORT = k7_kernels.SUPPORT
D = "src/convolution/"
P_INT = ["C01", "C03", "C05", "C10", "C18"]
P_FLT = ["C01", "C03", "C05"]

HARNESSES = []


def H(name, bound, claim, props, tier=None, covers=0, timeout=900):
    h = dict(name=name, kind="bounded", bound=bound, claim=claim, props=props, timeout=timeout)
    if covers:
        h["covers"] = covers
    if tier:
        h["tier"] = tier
    HARNESSES.append(h)


# ------------------------------------------------------------------------------------------------------------------------------
# horizontal integer kernels: 4-pixel source line -> 2 destination pixels (+ 1 spare), every channel against the oracle
# ------------------------------------------------------------------------------------------------------------------------------
def horiz_int_module(tag, pix, comp, nch, norm_fn, oracle, tables, fixed_px, fixed_taps, tap_ty, fixed_p):
    """tables: [(name, precision, windows-literal, cover-expr or None, tier)]"""
    ch = range(nch)
    src_ctor = ", ".join("%s::new(sp[%d])" % (pix, i) for i in range(4))
    line = lambda c: "[" + ", ".join("sp[%d][%d]" % (i, c) for i in range(4)) + "]"
    code = """
    use crate::convolution::optimisations::fv_norm::*;
    use crate::images::{TypedImage, TypedImageRef};

    /// 4 x 1 source (exactly sized: a read past the line is a CBMC bounds failure) -> 2 x 1 destination + 1 spare pixel.
    /// The destination starts with arbitrary (stale) content.
    fn run(sp: [[%(comp)s; %(n)d]; 4], n: &%(norm_ty)s) -> (%(comp)s, %(comp)s) {
        let src: [%(pix)s; 4] = [%(src_ctor)s];
        let stale: [[%(comp)s; %(n)d]; 3] = kani::any();
        let mut dst = [%(pix)s::new(stale[0]), %(pix)s::new(stale[1]), %(pix)s::new(stale[2])];
        {
            let s = TypedImageRef::new(4, 1, &src).unwrap();
            let mut d = TypedImage::from_pixels_slice(2, 1, &mut dst).unwrap();
            horiz_convolution(&s, &mut d, 0, n);
        }
%(asserts)s
        (dst[0].0[0], dst[1].0[%(n)d - 1])
    }
""" % dict(comp=comp, n=nch, pix=pix, src_ctor=src_ctor, norm_ty="Normalizer16" if comp == "u8" else "Normalizer32",
           asserts="\n".join(
               ["        assert!(dst[%d].0[%d] == %s(n, %d, &%s));" % (w, c, oracle, w, line(c)) for w in range(2) for c in ch] +
               ["        assert!(dst[2].0[%d] == stale[2][%d]);      // spare pixel untouched" % (c, c) for c in ch] +
               ["        assert!(src[%d].0[%d] == sp[%d][%d]);" % (i, c, i, c) for i in (0, 3) for c in ch]))
    for (name, prec, wins, cover, tier) in tables:
        code += """
    #[kani::proof]
    #[kani::unwind(6)]
    fn k10_%s_taps_%s() {
        let sp: [[%s; %d]; 4] = kani::any();
        let n = %s(%d, &%s);
        let r = run(sp, &n);
        kani::cover!(%s);
    }
""" % (tag, name, comp, nch, norm_fn, prec, wins, cover)
    if fixed_px:
      code += """
    #[kani::proof]
    #[kani::unwind(6)]
    fn k10_%s_pixels_fixed_any_taps() {
        let k: [%s; 5] = kani::any();
        let n = %s(%d, &%s);
        let r = run(%s, &n);
        kani::cover!(r.0 == 3 && r.1 == 250);
    }
""" % (tag, tap_ty, norm_fn, fixed_p, fixed_taps, fixed_px)
    return dict(file=D + "%s/native.rs" % tag, name="fv_k10_%s" % tag, code=code)


# Normalizer16 tables: (name, precision, windows, cover, tier).  Two windows each: the two destination pixels use different tables.
T16 = [
    ("smooth_sharpen", 14, "[(0, &[4096, 8192, 4096]), (1, &[-1639, 19661, -1638])]", "r.0 == 255 && r.1 == 0", None),
    ("extreme", 8, "[(2, &[30000, -29744]), (0, &[-32768, 32767, 257])]", "r.0 == 255 && r.1 == 1", "thorough"),
    ("p21", 21, "[(0, &[32767, 32767]), (3, &[-32768])]", "r.0 == 8", "thorough"),
]
# Normalizer32 tables.  Measured: the SAT cost of a u16 harness is (number of outputs) x (set bits of the tap constants): taps with
# one or two set bits cost < 1 s, two 'dirty' taps (-0.1, 1.2 at precision 30) cost ~25 s per output component, two taps of
# magnitude 2^31 - 1 ~55 s per output component.  Hence: window 0 = smooth taps with one set bit (0.25, 0.5, 0.25), window 1 =
# a dirty sharpening pair whose sum is not 2^p (a wrong rounding constant shows), the extreme table only for u16x2.
T32 = [
    ("smooth_sharpen", 30, "[(0, &[268435456, 536870912, 268435456]), (2, &[-107374182, 1288490188])]", "r.0 == 65535 && r.1 == 0", None),
]
T32X = T32 + [
    ("extreme", 45, "[(0, &[2147483647, -2147483648]), (3, &[2147483647])]", "r.0 == 3 && r.1 == 1", "thorough"),
]

MODS = []


def add_horiz(tag, pix, comp, nch, tables, fixed_px):
    wide = comp == "u16"
    MODS.append(horiz_int_module(tag, pix, comp, nch, "fv_norm32" if wide else "fv_norm16", "fv_oracle32" if wide else "fv_oracle16",
                                 tables, fixed_px, "[(0, &[k[0], k[1], k[2]]), (2, &[k[3], k[4]])]", "i32" if wide else "i16",
                                 30 if wide else 14))
    for (name, prec, wins, cover, tier) in tables:
        H("k10_%s_taps_%s" % (tag, name),
          "%s 4x1 -> 2x1, tap table '%s' (precision %d, windows %s), ALL pixel values, arbitrary stale destination" % (pix, name, prec, wins),
          "%s horizontal kernel == fx on every channel for every pixel value; spare destination pixel and source untouched; "
          "every destination pixel assigned (result independent of the stale content); row reads in bounds" % tag,
          P_INT, tier=tier, covers=1)
    if fixed_px:
        H("k10_%s_pixels_fixed_any_taps" % tag,
          "%s pixel line %s, ALL %s taps (3 + 2), precision %d" % (pix, fixed_px, "i32" if wide else "i16", 30 if wide else 14),
          "%s horizontal kernel == fx on every channel for every tap value (no accumulator overflow)" % tag,
          ["C01", "C03", "C10", "C18"], tier="thorough", covers=1)


add_horiz("u8x2", "U8x2", "u8", 2, T16, "[[255, 0], [0, 255], [17, 128], [200, 1]]")
add_horiz("u8x3", "U8x3", "u8", 3, T16[:2], "[[255, 0, 3], [0, 255, 77], [17, 128, 254], [200, 1, 100]]")
add_horiz("u16x2", "U16x2", "u16", 2, T32X, "[[65535, 0], [1, 40000], [40000, 256], [9, 65535]]")
add_horiz("u16x3", "U16x3", "u16", 3, T32, None)
add_horiz("u16x4", "U16x4", "u16", 4, T32, None)


# ------------------------------------------------------------------------------------------------------------------------------
# vertical kernels: (DW+1) x SR source -> DW x DR destination (+ 1 spare pixel), column offset 0 / 1
# ------------------------------------------------------------------------------------------------------------------------------
def vert_run(pix, comp, nch, dw, coef_ty, cond, sr=3, dr=2):
    """`fn run(sp, n, offset)`: sp[r] = the components of source row r.  cond(dst_expr, window, [column exprs]) -> rust condition."""
    sw = dw + 1
    px = (lambda e: "%s::new(%s)" % (pix, e[0])) if nch == 1 else (lambda e: "%s::new([%s])" % (pix, ", ".join(e)))
    get = (lambda a, i, c: "%s[%d].0" % (a, i)) if nch == 1 else (lambda a, i, c: "%s[%d].0[%d]" % (a, i, c))
    same = (lambda a, b: "%s.to_bits() == %s.to_bits()" % (a, b)) if comp == "f32" else (lambda a, b: "%s == %s" % (a, b))
    src = ",\n            ".join(px(["sp[%d][%d]" % (r, x * nch + c) for c in range(nch)]) for r in range(sr) for x in range(sw))
    nd = dr * dw + 1
    dst = ",\n            ".join(px(["stale[%d]" % (i * nch + c) for c in range(nch)]) for i in range(nd))
    asserts = []
    for r in range(dr):
        for x in range(dw):
            for c in range(nch):
                col = ["sp[%d][(o + %d) * %d + %d]" % (rr, x, nch, c) for rr in range(sr)]
                asserts.append("        assert!(%s);" % cond(get("dst", r * dw + x, c), r, col))
    for c in range(nch):
        asserts.append("        assert!(%s);      // spare pixel untouched" % same(get("dst", dr * dw, c), "stale[%d]" % (dr * dw * nch + c)))
    for (r, x) in ((0, 0), (sr - 1, sw - 1)):
        for c in range(nch):
            asserts.append("        assert!(%s);" % same(get("src", r * sw + x, c), "sp[%d][%d]" % (r, x * nch + c)))
    return """
    /// %(sw)d x %(sr)d source (exactly sized) -> %(dw)d x %(dr)d destination + 1 spare pixel; the destination starts with arbitrary content;
    /// every destination component is compared with the oracle over its source column (so none depends on the stale content).
    fn run(sp: [[%(comp)s; %(sc)d]; %(sr)d], n: &%(coef_ty)s, offset: u32) {
        let src: [%(pix)s; %(ns)d] = [
            %(src)s];
        let stale: [%(comp)s; %(nst)d] = [%(anys)s];
        let mut dst: [%(pix)s; %(nd)d] = [
            %(dst)s];
        {
            let s = TypedImageRef::new(%(sw)d, %(sr)d, &src).unwrap();
            let mut d = TypedImage::from_pixels_slice(%(dw)d, %(dr)d, &mut dst).unwrap();
            vert_convolution(&s, &mut d, offset, n);
        }
        let o = offset as usize;
%(asserts)s
    }
    fn any_rows() -> [[%(comp)s; %(sc)d]; %(sr)d] {
        [%(anyrows)s]
    }
""" % dict(sw=sw, dw=dw, sr=sr, dr=dr, comp=comp, sc=sw * nch, coef_ty=coef_ty, pix=pix, ns=sr * sw, src=src, nst=nd * nch,
           anys=", ".join(["kani::any()"] * (nd * nch)), nd=nd, dst=dst, asserts="\n".join(asserts),
           anyrows=",\n         ".join("[" + ", ".join(["kani::any()"] * (sw * nch)) + "]" for _ in range(sr)))


def grid(comp, rows, n, seed):
    """a deterministic concrete pixel grid with the extreme values of the component type sprinkled in"""
    special = dict(u16=["0", "65535", "1", "32768", "65534", "255", "256"],
                   i32=["0", "i32::MAX", "i32::MIN", "-1", "1", "1000000007", "-2147483647"],
                   f32=["0.0", "-0.0", "1.0", "255.0", "-3.75", "0.1", "0.33333334", "0.001"])[comp]      # huge / non-finite values only in SPECIAL_F32: they would mask the small terms
    out, x = [], seed
    for r in range(rows):
        row = []
        for i in range(n):
            x = (x * 1103515245 + 12345) % (1 << 31)
            if (x >> 8) % 3 == 0:
                row.append(special[(x >> 12) % len(special)])
            elif comp == "u16":
                row.append(str((x >> 10) % 65536))
            elif comp == "i32":
                row.append(str(((x >> 3) % (1 << 31)) - (1 << 30)))
            else:
                row.append(repr(((x >> 7) % 100000) / 100000.0))
        out.append("[" + ", ".join(row) + "]")
    return "[" + ", ".join(out) + "]"


VU16 = D + "vertical_u16/native.rs"
COND32 = lambda d, r, col: "%s == fv_oracle32(n, %d, &[%s])" % (d, r, ", ".join(col))
VHEAD = """
    use crate::convolution::optimisations::fv_norm::*;
    use crate::images::{TypedImage, TypedImageRef};
    use crate::pixels::*;
"""
MODS.append(dict(file=VU16, name="fv_k10_vu16_x2w2", code=VHEAD + vert_run("U16x2", "u16", 2, 2, "Normalizer32", COND32) + """
    #[kani::proof]
    #[kani::unwind(6)]
    fn k10_vertical_u16_x2_w2_tail_only() {
        let n = fv_norm32(30, &[(0, &[268435456, 805306368]), (1, &[-107374182, 1288490188])]);
        let offset: u32 = kani::any();
        kani::assume(offset <= 1);
        run(any_rows(), &n, offset);
    }
"""))
H("k10_vertical_u16_x2_w2_tail_only",
  "U16x2 3x3 -> 2x2 (4 components per row: shorter than one 16-component chunk, scalar tail only), column offset 0..=1 symbolic, "
  "tap table (0.25, 0.75 | -0.1, 1.2) at precision 30, ALL pixel values, arbitrary stale destination",
  "vertical u16 kernel (convolution_by_u16 path) == fx over the source column for every component; result independent of the stale "
  "destination; spare pixel and source untouched; reads in bounds", P_INT)
# measured: solver 38 s but 300 s wall and 10 GB of kani-driver memory (align_to_mut makes the chunk / tail lengths symbolic: every loop unwinds to the bound)
HARNESSES[-1]["mem"] = "high"
# The chunked path: `align_to_mut::<[u16; 16]>` makes the chunk / tail lengths symbolic for CBMC (pointer -> integer), the loops
# unwind to the bound and symbolic pixels do not finish (> 900 s).  Concrete pixel grid, concrete taps, symbolic stale destination.
VT32 = "fv_norm32(30, &[(0, &[-107374182, 1288490188])])"
MODS.append(dict(file=VU16, name="fv_k10_vu16_x4w5", code=VHEAD + vert_run("U16x4", "u16", 4, 5, "Normalizer32", COND32, sr=2, dr=1) + """
    #[kani::proof]
    #[kani::unwind(18)]
    fn k10_vertical_u16_x4_w5_chunk_and_tail_grid() {
        let n = %s;
        run(%s, &n, 1);
    }
""" % (VT32, grid("u16", 2, 24, 7))))
H("k10_vertical_u16_x4_w5_chunk_and_tail_grid",
  "U16x4 6x2 -> 5x1 (20 components per row: one 16-component chunk + 4-component tail), column offset 1, taps (-0.1, 1.2) at precision 30, "
  "ONE concrete pixel grid (extreme values included), arbitrary stale destination",
  "vertical u16 kernel == fx for every component of the chunked loop (convolution_by_chunks) and of the tail; x_src carried from the chunk "
  "loop into the tail; spare pixel untouched; reads in bounds", P_INT, tier="thorough")
# measured: 746 s wall on a loaded machine (symex ~220 s + thousands of incremental SAT calls), CBMC 3.4 GB, kani-driver 23.8 GB (!): isolate
HARNESSES[-1]["mem"] = "high"

# ------------------------------------------------------------------------------------------------------------------------------
# floating kernels (i32x1, f32x1..f32x4, vertical_f32): Coefficients built concretely, oracle = the sequential sum in window order.
# Measured: with symbolic pixels the two structurally equal f64 sums are NOT shared by CBMC (different SSA symbols): i32x1 with two
# 3-tap windows needs 584 s, every f32 variant > 600 s.  The value relation is therefore checked on CONCRETE pixel grids x concrete
# weight tables (bit-exact: same association), the frame / stale-destination part stays symbolic.
# ------------------------------------------------------------------------------------------------------------------------------
FLT = dict(file=D + "mod.rs", name="fv_k10_flt", vis="pub(crate) ", code="""
    /// window_size weights per window (only the first `size` of each window are meaningful; the rest is a trap value)
    pub(crate) fn fv_coeffs(window_size: usize, values: &[f64], bounds: &[(u32, u32)]) -> Coefficients {
        let mut b = Vec::with_capacity(bounds.len());
        for (start, size) in bounds.iter() {
            b.push(Bound { start: *start, size: *size });
        }
        Coefficients { values: values.to_vec(), window_size, bounds: b }
    }
    /// the convolution formula in floating point: the sequential sum in window order, starting from 0.0
    pub(crate) fn fv_fsum(px: &[f64], ks: &[f64]) -> f64 {
        let mut ss = 0.0f64;
        let mut i = 0;
        while i < ks.len() {
            ss += px[i] * ks[i];
            i += 1;
        }
        ss
    }
    pub(crate) fn fv_same(a: f32, b: f32) -> bool {
        a == b || (a != a && b != b)
    }
    /// r is `ss` rounded to the nearest integer (ties away from zero), saturated to the i32 range, NaN -> 0
    pub(crate) fn fv_round_sat(ss: f64, r: i32) -> bool {
        if ss != ss { return r == 0; }
        if ss >= 2147483647.5 { return r == i32::MAX; }
        if ss <= -2147483648.5 { return r == i32::MIN; }
        let d = r as f64 - ss;
        if d > 0.5 || d < -0.5 { return false; }
        if d == 0.5 { return ss > 0.0; }
        if d == -0.5 { return ss < 0.0; }
        true
    }
""")
TRAP = "1.0e30"
FHEAD = """
    use crate::convolution::fv_k10_flt::*;
    use crate::images::{TypedImage, TypedImageRef};
    use crate::pixels::*;
"""


def flit(x):
    return repr(float(x))


def coeffs_literal(windows):
    ws = max(len(w) for (_, w) in windows) + 1
    vals = []
    for (_, w) in windows:
        vals += [flit(v) for v in w] + [TRAP] * (ws - len(w))
    return "fv_coeffs(%d, &[%s], &[%s])" % (ws, ", ".join(vals), ", ".join("(%d, %d)" % (st, len(w)) for (st, w) in windows))


def horiz_flt_run(fname, pix, comp, nch, L, windows, check):
    """fn fname(sp): L x 1 source -> len(windows) x 1 destination + spare.  check(dst_expr, sum_expr) -> assertion condition."""
    px = (lambda e: "%s::new(%s)" % (pix, e[0])) if nch == 1 else (lambda e: "%s::new([%s])" % (pix, ", ".join(e)))
    get = (lambda a, i, c: "%s[%d].0" % (a, i)) if nch == 1 else (lambda a, i, c: "%s[%d].0[%d]" % (a, i, c))
    nw = len(windows)
    src = ", ".join(px(["sp[%d]" % (x * nch + c) for c in range(nch)]) for x in range(L))
    dst = ", ".join(px(["stale[%d]" % (i * nch + c) for c in range(nch)]) for i in range(nw + 1))
    asserts = []
    for w, (st, ks) in enumerate(windows):
        for c in range(nch):
            pxs = ", ".join("sp[%d] as f64" % ((st + i) * nch + c) for i in range(len(ks)))
            asserts.append("        assert!(%s);" % check(get("dst", w, c), "fv_fsum(&[%s], &[%s])" % (pxs, ", ".join(flit(k) for k in ks))))
    for c in range(nch):
        asserts.append("        assert!(%s.to_bits() == stale[%d].to_bits());      // spare pixel untouched" % (get("dst", nw, c), nw * nch + c)
                       if comp == "f32" else "        assert!(%s == stale[%d]);      // spare pixel untouched" % (get("dst", nw, c), nw * nch + c))
    return """
    fn %(fname)s(sp: [%(comp)s; %(ns)d]) {
        let src: [%(pix)s; %(L)d] = [%(src)s];
        let stale: [%(comp)s; %(nst)d] = [%(anyst)s];
        let mut dst: [%(pix)s; %(nd)d] = [%(dst)s];
        let coeffs = %(coeffs)s;
        {
            let s = TypedImageRef::new(%(L)d, 1, &src).unwrap();
            let mut d = TypedImage::from_pixels_slice(%(nw)d, 1, &mut dst).unwrap();
            horiz_convolution(&s, &mut d, 0, &coeffs);
        }
%(asserts)s
    }
""" % dict(fname=fname, comp=comp, ns=L * nch, pix=pix, L=L, src=src, nst=(nw + 1) * nch,
           anyst=", ".join(["kani::any()"] * ((nw + 1) * nch)), nd=nw + 1, dst=dst, coeffs=coeffs_literal(windows), nw=nw,
           asserts="\n".join(asserts))


CHK_F32 = lambda d, e: "fv_same(%s, %s as f32)" % (d, e)
CHK_I32 = lambda d, e: "fv_round_sat(%s, %s)" % (e, d)
W_SMOOTH_SHARPEN = [(0, [0.25, 0.5, 0.25]), (1, [-0.125, 1.25, -0.125])]
W_DIRTY = [(2, [-0.1, 1.2]), (0, [0.3333333333333333, 0.3333333333333333, 0.3333333333333333])]
W_HUGE = [(0, [1.5, 1.5, -0.75]), (3, [1.0e300])]
W9 = [(0, [0.06, 0.07, 0.12, 0.13, 0.24, 0.13, 0.12, 0.07, 0.06]), (1, [0.01, 0.02, 0.03, 0.04, 0.8, 0.04, 0.03, 0.02])]
SPECIAL_F32 = ["f32::NAN", "f32::INFINITY", "f32::NEG_INFINITY", "f32::MAX", "-0.0", "1.0e-45", "0.1", "f32::MIN"]


def add_flt_grids(tag, pix, comp, nch, L, tables, unwind):
    chk = CHK_F32 if comp == "f32" else CHK_I32
    name = "k10_%s_grids" % tag
    n = L * nch
    grids = [grid(comp, 1, n, 11 + nch)[1:-1], grid(comp, 1, n, 97 + nch)[1:-1]]
    if comp == "f32":
        grids.pop()
        grids.append("[" + ", ".join(SPECIAL_F32[(i * 3 + nch) % len(SPECIAL_F32)] for i in range(n)) + "]")
    code = FHEAD
    calls = []
    for t, (tn, windows) in enumerate(tables):
        code += horiz_flt_run("run_%s" % tn, pix, comp, nch, L, windows, chk)
        calls += ["        run_%s(%s);" % (tn, g) for g in grids]
    code += """
    #[kani::proof]
    #[kani::unwind(%d)]
    fn %s() {
%s
    }
""" % (unwind, name, "\n".join(calls))
    MODS.append(dict(file=D + "%s/native.rs" % tag, name="fv_%s" % name, code=code))
    H(name, "%s %dx1 -> 2x1, weight tables %s (window_size one more than the longest window, unused slots hold the trap value %s), %d CONCRETE pixel lines "
      "(extreme values%s included), arbitrary stale destination" % (pix, L, tables, TRAP, len(grids), ", NaN, +-inf, subnormal" if comp == "f32" else ""),
      ("%s horizontal kernel == the sequential f64 sum in window order converted with `as f32`, bit-exact (or both NaN), on every channel" % tag if comp == "f32" else
       "i32x1 horizontal kernel == the sequential f64 sum in window order, rounded to nearest (ties away from zero) and saturated to i32") +
      "; weights beyond the window's size unused; spare pixel untouched; reads in bounds", P_FLT)


# Measured: one kernel invocation on a concrete line costs ~45 s of CBMC time (the float operations on values read back from memory
# are not constant-folded) and kani-driver memory grows with every invocation: 2 - 4 invocations per harness.
W_MIX = [(1, [-0.1, 1.2, -0.1]), (0, [0.25, 0.5])]
add_flt_grids("i32x1", "I32", "i32", 1, 4, [("mix", W_MIX), ("huge", W_HUGE)], 6)
add_flt_grids("f32x1", "F32", "f32", 1, 10, [("nine_taps", W9)], 11)
add_flt_grids("f32x2", "F32x2", "f32", 2, 4, [("mix", W_MIX)], 6)
add_flt_grids("f32x3", "F32x3", "f32", 3, 4, [("mix", W_MIX)], 6)
add_flt_grids("f32x4", "F32x4", "f32", 4, 4, [("mix", W_MIX)], 6)

# i32x1 with ALL pixel values (measured 584 s on a loaded machine): thorough only
MODS.append(dict(file=D + "i32x1/native.rs", name="fv_k10_i32x1_any", code=FHEAD + horiz_flt_run("run", "I32", "i32", 1, 4, W_SMOOTH_SHARPEN, CHK_I32) + """
    #[kani::proof]
    #[kani::unwind(6)]
    fn k10_i32x1_h_smooth_sharpen_any_pixels() {
        run([kani::any(), kani::any(), kani::any(), kani::any()]);
    }
"""))
H("k10_i32x1_h_smooth_sharpen_any_pixels", "I32 4x1 -> 2x1, weights %s, ALL i32 pixel values, arbitrary stale destination" % W_SMOOTH_SHARPEN,
  "i32x1 horizontal kernel == the sequential f64 sum in window order, rounded to nearest (ties away from zero), saturated to i32; spare pixel untouched",
  P_FLT, tier="thorough")

# vertical kernels on Coefficients: i32x1::vert_convolution and vertical_f32 (chunks of 8 components via chunks_exact_mut + scalar rest)
VW = [(0, [0.3, 0.7]), (1, [-0.1, 1.2])]      # window r of destination row r over source rows start..start+2
def cond_flt(chk):
    def f(d, r, col):
        st, ks = VW[r]
        return chk(d, "fv_fsum(&[%s], &[%s])" % (", ".join("%s as f64" % col[st + i] for i in range(len(ks))), ", ".join(flit(k) for k in ks)))
    return f


def add_vert_flt(file, name, pix, comp, nch, dw, unwind, bound, claim, one_call=False):
    chk = CHK_F32 if comp == "f32" else CHK_I32
    n = (dw + 1) * nch
    grids = [grid(comp, 3, n, 5 + nch), grid(comp, 3, n, 41 + nch)]
    if comp == "f32":
        grids.pop()
        grids.append("[" + ", ".join("[" + ", ".join(SPECIAL_F32[(i * 3 + r + nch) % len(SPECIAL_F32)] for i in range(n)) + "]" for r in range(3)) + "]")
    if one_call:
        grids = grids[:1]
    calls = "\n".join("        run(%s, &n, %d);" % (g, o) for (g, o) in (((grids[0], 1),) if one_call else ((grids[0], 0), (grids[1], 1))))
    MODS.append(dict(file=file, name="fv_%s" % name, code=FHEAD + vert_run(pix, comp, nch, dw, "Coefficients", cond_flt(chk)) + """
    #[kani::proof]
    #[kani::unwind(%d)]
    fn %s() {
        let n = %s;
        let n = &n;
%s
    }
""" % (unwind, name, coeffs_literal(VW), calls.replace("&n,", "n,"))))
    H(name, bound + "; weights %s; %s; arbitrary stale destination" % (VW, "ONE concrete pixel grid with column offset 1" if one_call else "2 CONCRETE pixel grids (the first with column offset 0, the second with offset 1)"), claim, P_FLT)


add_vert_flt(D + "i32x1/native.rs", "k10_i32x1_vertical_grids", "I32", "i32", 1, 2, 6, "I32 3x3 -> 2x2",
             "i32x1 vertical kernel == the sequential f64 sum over the source column in window order, rounded to nearest (ties away from zero) and "
             "saturated; spare pixel untouched; every destination pixel assigned; reads in bounds")
VF32 = D + "vertical_f32/native.rs"
add_vert_flt(VF32, "k10_vertical_f32_x3_w3_chunk_and_rest_grids", "F32x3", "f32", 3, 3, 10,
             "F32x3 4x3 -> 3x2 (9 components per row: one 8-component chunk + 1 scalar rest)",
             "vertical f32 kernel == the sequential f64 sum over the source column converted with `as f32`, bit-exact (or both NaN), in the chunked loop "
             "and in the scalar rest; spare pixel untouched; every destination component assigned; reads in bounds", one_call=True)
# measured: kani-driver needs > 10 GB for this harness with two grids (14 GB), CBMC itself 2 GB: one grid, isolated, thorough only
HARNESSES[-1]["tier"] = "thorough"
HARNESSES[-1]["mem"] = "high"
add_vert_flt(VF32, "k10_vertical_f32_x1_w2_rest_only_grids", "F32", "f32", 1, 2, 10,
             "F32 3x3 -> 2x2 (2 components per row: no full chunk, scalar rest only)",
             "vertical f32 kernel (convolution_by_f32 path) == the sequential f64 sum over the source column converted with `as f32`; spare pixel untouched")

FUNCTIONS = [dict(file=D + "%s/native.rs" % t, fn="horiz_convolution") for t in ("u8x2", "u8x3", "u16x2", "u16x3", "u16x4")] + [
    dict(file=VU16, fn="vert_convolution"), dict(file=VU16, fn="convolution_by_u16"), dict(file=VU16, fn="convolution_by_chunks")] + [
    dict(file=D + "%s/native.rs" % t, fn="horiz_convolution") for t in ("i32x1", "f32x1", "f32x2", "f32x3", "f32x4")] + [
    dict(file=D + "i32x1/native.rs", fn="vert_convolution"), dict(file=D + "f32x1/native.rs", fn="convolution_by_chunks"),
    dict(file=VF32, fn="vert_convolution"), dict(file=VF32, fn="convolution_by_f32"), dict(file=VF32, fn="convolution_by_chunks")]

UNITS = [dict(
    id="K10",
    title="the remaining native kernels (u8x2, u8x3, u16x2..4, vertical u16, i32, f32x1..4, vertical f32) compute the convolution formula; reads inside the window; frame",
    assumptions=["bounded / sampled: integer kernels: 'kernel == fx' on concrete tap tables x ALL pixel values and on concrete pixel rows x ALL tap values "
                 "(SAT does not finish when both are symbolic); sizes, window starts and precision are concrete",
                 "floating kernels and the chunked path of vertical_u16: concrete pixel grids x concrete weight tables (symbolic pixels do not finish within 600 - 900 s), "
                 "the stale destination content and the spare pixel stay symbolic; i32x1 horizontal additionally for ALL pixel values in the thorough tier"],
    kani=dict(functions=FUNCTIONS, modules=[SUPPORT, FLT] + MODS, harnesses=HARNESSES),
)]


# --- tiers / memory classes set by the lead (measured by the builder: kani-driver memory at the end of the harness) -----------------
for _u in UNITS:
    for _h in _u["kani"]["harnesses"]:
        if _h["name"] == "k10_vertical_u16_x2_w2_tail_only":
            _h["tier"] = "thorough"                      # 10 GB of driver memory: not in the quick tier
        if _h["name"] == "k10_vertical_u16_x4_w5_chunk_and_tail_grid":
            _h["mem"] = "huge"                           # 24 GB of driver memory, 12 min: runs alone
            _h["timeout"] = 2400
