"""G2 — CroppedSrcImageView::crop: the f64 crop box given to resize is accepted
iff it is finite, non-negative and inside the image.

Oracle (statement of C04; the sums are IEEE f64 sums, i.e. 'inside up to the
rounding of left+width'):
   Ok <=> all four finite, left,top,width,height >= 0 (-0.0 counts as 0),
          left < W, top < H, fl(left+width) <= W, fl(top+height) <= H
"""
from common import SUPPORT_MODULE

F = "src/crop_box.rs"

UNIT = dict(
    id="G2",
    title="CroppedSrcImageView::crop accepts exactly the finite, non-negative f64 boxes inside the image; never panics",
    assumptions=["'inside' uses the IEEE sum fl(left+width) (the code's own comparison); the real-number sum may exceed W by < 1 ulp"],
    kani=dict(
        functions=[dict(file=F, fn="crop", within=r"impl<'a, T: ImageView> CroppedSrcImageView<'a, T>")],
        modules=[SUPPORT_MODULE, dict(file=F, name="fv_g2", code="""
    use crate::fv_support::FvDims;

    fn oracle(w: u32, h: u32, b: CropBox) -> bool {
        let (iw, ih) = (w as f64, h as f64);
        b.left.is_finite() && b.top.is_finite() && b.width.is_finite() && b.height.is_finite()
            && b.left >= 0. && b.top >= 0. && b.width >= 0. && b.height >= 0.
            && b.left < iw && b.top < ih
            && b.left + b.width <= iw && b.top + b.height <= ih
    }

    #[kani::proof]
    fn g2_crop_iff() {
        let view = FvDims { w: kani::any(), h: kani::any() };
        let b = CropBox { left: kani::any(), top: kani::any(), width: kani::any(), height: kani::any() };
        let r = CroppedSrcImageView::crop(&view, b);
        kani::cover!(r.is_ok());
        kani::cover!(r.is_err());
        assert!(r.is_ok() == oracle(view.w, view.h, b));
    }

    #[kani::proof]
    fn g2_crop_error_kinds() {
        let view = FvDims { w: kani::any(), h: kani::any() };
        let b = CropBox { left: kani::any(), top: kani::any(), width: kani::any(), height: kani::any() };
        kani::assume(b.left.is_finite() && b.top.is_finite() && b.width.is_finite() && b.height.is_finite());
        match CroppedSrcImageView::crop(&view, b) {
            Ok(v) => {
                // accepted box is stored unchanged
                let cb = v.crop_box();
                assert!(cb.left == b.left && cb.top == b.top && cb.width == b.width && cb.height == b.height);
            }
            Err(CropBoxError::WidthOrHeightLessThanZero) => assert!(b.width < 0. || b.height < 0.),
            Err(CropBoxError::PositionIsOutOfImageBoundaries) => assert!(
                b.left >= view.w as f64 || b.top >= view.h as f64 || b.left < 0. || b.top < 0.),
            Err(CropBoxError::SizeIsOutOfImageBoundaries) => assert!(
                b.left + b.width > view.w as f64 || b.top + b.height > view.h as f64),
        }
    }
""")],
        harnesses=[
            dict(name="g2_crop_iff", kind="complete", covers=2, timeout=300,
                 claim="crop: Ok <=> finite & non-negative & inside, for all 4 x f64 (NaN, +-inf, -0.0, denormals) and all u32 image sizes; no panic"),
            dict(name="g2_crop_error_kinds", kind="complete", timeout=300,
                 claim="crop: each documented error kind is returned only for its documented cause; an accepted box is stored unchanged"),
        ],
    ),
)
