"""L1 — lemmas over the fixed-point convolution formula (the postcondition of the kernels, unit K7):
      fx(k, s) = clamp( floor( (2^(p-1) + sum_i k_i * s_i) / 2^p ), 0, max )
proved by Verus for windows of ANY length and all integer values (induction over the window):
  * C10: taps summing to 2^p + e with |e| * max < 2^(p-1) reproduce a uniform value exactly;
  * C18: non-negative taps preserve order, and with the same premise never leave [min, max] of the window.
These are lemmas over contracts (no repository text is involved); K7 ties the real kernels to fx, K4 ties the taps to the weights."""

PRELUDE = r'''
// ---- the fixed-point convolution formula the kernels implement (K7): one output component --------------------------
pub open spec fn dot(k: Seq<int>, s: Seq<int>) -> int
    decreases k.len()
{
    if k.len() == 0 || s.len() == 0 { 0 } else { dot(k.drop_last(), s.drop_last()) + k.last() * s.last() }
}
pub open spec fn sum(k: Seq<int>) -> int
    decreases k.len()
{
    if k.len() == 0 { 0 } else { sum(k.drop_last()) + k.last() }
}
pub open spec fn clamp(x: int, lo: int, hi: int) -> int { if x < lo { lo } else if x > hi { hi } else { x } }
/// p2 = 2^precision (>= 2); floor((p2/2 + dot) / p2) clamped to the component range
pub open spec fn fx(k: Seq<int>, s: Seq<int>, p2: int, max: int) -> int { clamp((p2 / 2 + dot(k, s)) / p2, 0, max) }

pub open spec fn all_eq(s: Seq<int>, v: int) -> bool { forall|i: int| 0 <= i < s.len() ==> s[i] == v }
pub open spec fn all_ge(s: Seq<int>, v: int) -> bool { forall|i: int| 0 <= i < s.len() ==> s[i] >= v }
pub open spec fn pointwise_le(a: Seq<int>, b: Seq<int>) -> bool { a.len() == b.len() && forall|i: int| 0 <= i < a.len() ==> a[i] <= b[i] }

proof fn lemma_dot_uniform(k: Seq<int>, s: Seq<int>, v: int)
    requires k.len() == s.len(), all_eq(s, v),
    ensures dot(k, s) == v * sum(k),
    decreases k.len(),
{
    if k.len() > 0 {
        lemma_dot_uniform(k.drop_last(), s.drop_last(), v);
        assert(v * (sum(k.drop_last()) + k.last()) == v * sum(k.drop_last()) + v * k.last()) by(nonlinear_arith);
        assert(k.last() * v == v * k.last()) by(nonlinear_arith);
    }
}

proof fn lemma_dot_monotone(k: Seq<int>, a: Seq<int>, b: Seq<int>)
    requires k.len() == a.len(), pointwise_le(a, b), all_ge(k, 0),
    ensures dot(k, a) <= dot(k, b),
    decreases k.len(),
{
    if k.len() > 0 {
        lemma_dot_monotone(k.drop_last(), a.drop_last(), b.drop_last());
        assert(k.last() * a.last() <= k.last() * b.last()) by(nonlinear_arith) requires k.last() >= 0, a.last() <= b.last();
    }
}

// C10 (lemma): taps forming a partition of unity up to a quantisation error e with |e| * max < p2/2 reproduce a uniform value exactly
proof fn lemma_uniform_stays_uniform(k: Seq<int>, s: Seq<int>, v: int, p2: int, max: int)
    requires
        k.len() == s.len(), all_eq(s, v), 0 <= v <= max, p2 >= 2, p2 % 2 == 0,
        (sum(k) - p2) * max < p2 / 2, (p2 - sum(k)) * max < p2 / 2,
    ensures fx(k, s, p2, max) == v,
{
    lemma_dot_uniform(k, s, v);
    let e = sum(k) - p2;
    assert(v * sum(k) == v * p2 + v * e) by(nonlinear_arith) requires e == sum(k) - p2;
    assert(v * e <= max * e || v * e <= 0) by(nonlinear_arith) requires 0 <= v <= max;
    assert(-(p2 / 2) < v * e && v * e < p2 / 2) by(nonlinear_arith)
        requires 0 <= v <= max, e * max < p2 / 2, (0 - e) * max < p2 / 2, p2 >= 2;
    let r = p2 / 2 + v * e;
    assert(0 <= r < p2);
    assert((r + v * p2) / p2 == v) by(nonlinear_arith) requires 0 <= r < p2, p2 > 0;
}

// C18 (lemma, order): non-negative taps preserve the component-wise order of the inputs
proof fn lemma_nonneg_taps_monotone(k: Seq<int>, a: Seq<int>, b: Seq<int>, p2: int, max: int)
    requires k.len() == a.len(), pointwise_le(a, b), all_ge(k, 0), p2 >= 2, max >= 0,
    ensures fx(k, a, p2, max) <= fx(k, b, p2, max),
{
    lemma_dot_monotone(k, a, b);
    let (x, y) = (p2 / 2 + dot(k, a), p2 / 2 + dot(k, b));
    assert(x / p2 <= y / p2) by(nonlinear_arith) requires x <= y, p2 > 0;
}

// C18 (lemma, range): with non-negative taps and the partition-of-unity premise the output stays within [lo, hi] of the window
proof fn lemma_nonneg_taps_no_overshoot(k: Seq<int>, s: Seq<int>, lo: int, hi: int, p2: int, max: int)
    requires
        k.len() == s.len(), all_ge(k, 0), p2 >= 2, p2 % 2 == 0, 0 <= lo <= hi <= max,
        forall|i: int| 0 <= i < s.len() ==> lo <= (#[trigger] s[i]) && s[i] <= hi,
        (sum(k) - p2) * max < p2 / 2, (p2 - sum(k)) * max < p2 / 2,
    ensures lo <= fx(k, s, p2, max) <= hi,
{
    let slo = Seq::new(s.len(), |i: int| lo);
    let shi = Seq::new(s.len(), |i: int| hi);
    lemma_uniform_stays_uniform(k, slo, lo, p2, max);
    lemma_uniform_stays_uniform(k, shi, hi, p2, max);
    lemma_nonneg_taps_monotone(k, slo, s, p2, max);
    lemma_nonneg_taps_monotone(k, s, shi, p2, max);
}

'''

UNIT = dict(
    id="L1",
    title="lemmas over the fixed-point convolution formula: uniform stays uniform, order preservation, no overshoot (unbounded window length)",
    assumptions=["the lemmas speak about the formula fx; that the real kernels compute fx is K7's obligation (bounded), that the integer taps are "
                 "round(w_i * 2^p) is K4's (bounded), and that the built-in filters satisfy the premise |sum k - 2^p| * max < 2^(p-1) is "
                 "checked only on enumerated windows (polynomial filters) - N1 for Lanczos3/Hamming/Gaussian"],
    verus=dict(
        prelude=PRELUDE,
        fns=[],
        lemmas=[("lemma_dot_uniform", "dot(k, uniform v) == v * sum(k)"),
                ("lemma_dot_monotone", "non-negative taps: a <= b pointwise => dot(k,a) <= dot(k,b)"),
                ("lemma_uniform_stays_uniform", "C10 lemma: |sum k - 2^p| * max < 2^(p-1) and a uniform window of value v in [0,max] => fx == v, any window length"),
                ("lemma_nonneg_taps_monotone", "C18 lemma (order): non-negative taps, a <= b pointwise => fx(a) <= fx(b), any window length"),
                ("lemma_nonneg_taps_no_overshoot", "C18 lemma (range): non-negative taps with the partition premise => lo <= fx <= hi for a window within [lo, hi]")],
    ),
)
