"""K4 / K7 — fixed-point normaliser and native convolution kernels with SYMBOLIC integer taps.

Oracle (statement of C01/C10/C18, integer formats):
   dst = clamp( floor( (2^(p-1) + sum_i k_i * s_i) / 2^p ), 0, max )      (round-half-up of the quantised convolution)
with k_i = round(w_i * 2^p).  All reads stay inside [start, start+len) of the row, only dst.width x dst.height is written.
"""

FO = "src/convolution/optimisations.rs"

SUPPORT = dict(file=FO, name="fv_norm", vis="pub(crate) ", code="""
    use crate::convolution::{Bound, Coefficients};

    /// Any Normalizer16 whose chunks satisfy the window invariant w.r.t. a source line of `src_len` pixels:
    /// `n_chunks` chunks, each with 1..=max_taps arbitrary i16 taps, start + len <= src_len.
    pub(crate) fn fv_any_normalizer16(n_chunks: usize, max_taps: usize, src_len: u32, pmin: u8, pmax: u8) -> Normalizer16 {
        let precision: u8 = kani::any();
        kani::assume(precision >= pmin && precision <= pmax);
        let mut chunks = Vec::with_capacity(n_chunks);
        for _ in 0..n_chunks {
            let len: usize = kani::any();
            kani::assume(len >= 1 && len <= max_taps);
            let mut values = Vec::with_capacity(max_taps);
            for i in 0..max_taps {
                if i < len { values.push(kani::any::<i16>()); }
            }
            let start: u32 = kani::any();
            kani::assume(start as u64 + len as u64 <= src_len as u64);
            chunks.push(CoefficientsI16Chunk { start, values });
        }
        Normalizer16 { precision, chunks }
    }

    pub(crate) fn fv_any_normalizer32(n_chunks: usize, max_taps: usize, src_len: u32, pmin: u8, pmax: u8) -> Normalizer32 {
        let precision: u8 = kani::any();
        kani::assume(precision >= pmin && precision <= pmax);
        let mut chunks = Vec::with_capacity(n_chunks);
        for _ in 0..n_chunks {
            let len: usize = kani::any();
            kani::assume(len >= 1 && len <= max_taps);
            let mut values = Vec::with_capacity(max_taps);
            for i in 0..max_taps {
                if i < len { values.push(kani::any::<i32>()); }
            }
            let start: u32 = kani::any();
            kani::assume(start as u64 + len as u64 <= src_len as u64);
            chunks.push(CoefficientsI32Chunk { start, values });
        }
        Normalizer32 { precision, chunks }
    }

    /// the C03 panic-free premise on one window, in fixed point: sum |k_i| < 4 * 2^p
    pub(crate) fn fv_headroom16(n: &Normalizer16) -> bool {
        let lim: i64 = 4i64 << n.precision;
        n.chunks.iter().all(|c| c.values.iter().map(|&k| (k as i64).abs()).sum::<i64>() < lim)
    }

    pub(crate) fn fv_oracle16(n: &Normalizer16, chunk: usize, px: &[u8]) -> u8 {
        let c = &n.chunks[chunk];
        let mut acc: i64 = 1i64 << (n.precision - 1);
        for (i, &k) in c.values.iter().enumerate() {
            acc += k as i64 * px[c.start as usize + i] as i64;
        }
        (acc >> n.precision).clamp(0, 255) as u8
    }

    pub(crate) fn fv_oracle32(n: &Normalizer32, chunk: usize, px: &[u16]) -> u16 {
        let c = &n.chunks[chunk];
        let mut acc: i128 = 1i128 << (n.precision - 1);
        for (i, &k) in c.values.iter().enumerate() {
            acc += k as i128 * px[c.start as usize + i] as i128;
        }
        (acc >> n.precision).clamp(0, 65535) as u16
    }

    // ---- K4: Normalizer16::new on one window of symbolic weights ------------------------------
    #[kani::proof]
    #[kani::unwind(24)]
    fn k4_normalizer16_new_window3() {
        let w: [f64; 3] = kani::any();
        kani::assume(w[0].is_finite() && w[1].is_finite() && w[2].is_finite());
        let size: u32 = kani::any();
        kani::assume(size <= 3);
        let start: u32 = kani::any();
        let c = Coefficients { values: vec![w[0], w[1], w[2]], window_size: 3, bounds: vec![Bound { start, size }] };
        let max_w = if w[0] >= w[1] && w[0] >= w[2] { w[0] } else if w[1] >= w[2] { w[1] } else { w[2] };
        kani::assume(max_w < 1024.0);     // debug_assert!(precision >= 4) domain
        let n = Normalizer16::new(c);
        let p = n.precision;
        kani::cover!(p == 14);
        assert!(p <= 21);
        if max_w < 4.0 { assert!(p >= 12); }
        assert!(n.chunks.len() == 1 && n.chunks[0].start == start && n.chunks[0].values.len() == size as usize);
        let scale = (1u32 << p) as f64;
        for i in 0..size as usize {
            // k_i == saturating round(w_i * 2^p)
            assert!(n.chunks[0].values[i] == (w[i] * scale).round() as i16);
        }
        // the largest weight is never saturated: |k| < 2^15 by the choice of p
        if max_w >= 0.0 { assert!((max_w * scale).round() < 32768.0); }
    }
""")

FU8 = "src/convolution/u8x1/native.rs"
FU16 = "src/convolution/u16x1/native.rs"

K7_U8X1 = dict(file=FU8, name="fv_k7_u8x1", code="""
    use crate::convolution::optimisations::fv_norm::*;
    use crate::images::{TypedImage, TypedImageRef};

    #[kani::proof]
    #[kani::unwind(6)]
    fn k7_u8x1_horiz_formula() {
        let src_px: [u8; 4] = kani::any();
        let src: [U8; 4] = [U8::new(src_px[0]), U8::new(src_px[1]), U8::new(src_px[2]), U8::new(src_px[3])];
        let mut dst = [U8::new(0); 3];          // 2 pixels + 1 spare that must stay untouched
        let canary: u8 = kani::any();
        dst[2] = U8::new(canary);
        let n = fv_any_normalizer16(2, 3, 4, 1, 21);
        {
            let s = TypedImageRef::new(4, 1, &src).unwrap();
            let mut d = TypedImage::from_pixels_slice(2, 1, &mut dst).unwrap();
            horiz_convolution(&s, &mut d, 0, &n);
        }
        kani::cover!(dst[0].0 == 255);
        kani::cover!(dst[0].0 == 7);
        assert!(dst[0].0 == fv_oracle16(&n, 0, &src_px));
        assert!(dst[1].0 == fv_oracle16(&n, 1, &src_px));
        assert!(dst[2].0 == canary);
        assert!(src[0].0 == src_px[0] && src[3].0 == src_px[3]);
    }
""")

K7_U16X1 = dict(file=FU16, name="fv_k7_u16x1", code="""
    use crate::convolution::optimisations::fv_norm::*;
    use crate::images::{TypedImage, TypedImageRef};

    #[kani::proof]
    #[kani::unwind(6)]
    fn k7_u16x1_horiz_formula() {
        let src_px: [u16; 3] = kani::any();
        let src: [U16; 3] = [U16::new(src_px[0]), U16::new(src_px[1]), U16::new(src_px[2])];
        let mut dst = [U16::new(0); 2];
        let canary: u16 = kani::any();
        dst[1] = U16::new(canary);
        let n = fv_any_normalizer32(1, 2, 3, 1, 45);
        // the i64 accumulator cannot overflow for |k| < 2^31 and two taps
        {
            let s = TypedImageRef::new(3, 1, &src).unwrap();
            let mut d = TypedImage::from_pixels_slice(1, 1, &mut dst).unwrap();
            horiz_convolution(&s, &mut d, 0, &n);
        }
        kani::cover!(dst[0].0 == 65535);
        assert!(dst[0].0 == fv_oracle32(&n, 0, &src_px));
        assert!(dst[1].0 == canary);
    }
""")

UNITS = [dict(
    id="K4",
    title="Normalizer16::new: precision range, k_i = round(w_i * 2^p), chunk shape copied from the bounds",
    assumptions=["bounded: one window of 3 symbolic finite f64 weights (all values), symbolic bound; max weight < 1024 (the debug_assert domain)"],
    kani=dict(
        functions=[dict(file=FO, fn="new", within=r"impl Normalizer16")],
        modules=[SUPPORT],
        harnesses=[dict(name="k4_normalizer16_new_window3", kind="bounded", covers=1, timeout=1500,
                        bound="one window, 3 weights (every finite f64 triple with max < 1024), size 0..=3",
                        claim="0<=p<=21; max w < 4 => p >= 12; k_i == round(w_i*2^p) as i16; start/len copied; the max weight is not saturated")],
    ),
), dict(
    id="K7",
    title="native horizontal kernels with symbolic taps: dst == clamp((2^(p-1) + sum k_i s_i) >> p), reads inside the window, frame",
    assumptions=["bounded: u8x1 src 4x1 -> dst 2x1 with <= 3 taps per window; u16x1 src 3x1 -> dst 1x1 with <= 2 taps; taps, pixels, precision, window starts all symbolic"],
    kani=dict(
        functions=[dict(file=FU8, fn="horiz_convolution"), dict(file=FU16, fn="horiz_convolution")],
        modules=[SUPPORT, K7_U8X1, K7_U16X1],
        harnesses=[
            dict(name="k7_u8x1_horiz_formula", kind="bounded", covers=2, timeout=1500,
                 bound="src 4x1, dst 2x1 (+1 spare pixel), 1..=3 arbitrary i16 taps per window, precision 1..=21, all pixel values",
                 claim="every dst pixel equals the fixed-point oracle (round half up, clamped); spare pixel and source untouched; "
                       "all unchecked reads (row window, clip table) in bounds for ANY taps (memory safety for arbitrary finite custom kernels)"),
            dict(name="k7_u16x1_horiz_formula", kind="bounded", covers=1, timeout=1500,
                 bound="src 3x1, dst 1x1 (+1 spare), 1..=2 arbitrary i32 taps, precision 1..=45, all pixel values",
                 claim="dst pixel equals the 16-bit fixed-point oracle; no i64 overflow; spare pixel untouched"),
        ],
    ),
)]
