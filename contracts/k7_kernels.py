"""K4 / K7 — fixed-point normaliser and native convolution kernels with SYMBOLIC integer taps.

Oracle (statement of C01/C10/C18, integer formats):
   dst = clamp( floor( (2^(p-1) + sum_i k_i * s_i) / 2^p ), 0, max )      (round-half-up of the quantised convolution)
with k_i = round(w_i * 2^p).  All reads stay inside [start, start+len) of the row, only dst.width x dst.height is written.
"""

FO = "src/convolution/optimisations.rs"
import k_clip
K2 = [u for u in k_clip.UNITS if u["id"] == "K2"][0]["kani"]
CLIP_STUB = "#[kani::stub_verified(crate::convolution::optimisations::Normalizer16::clip)]"

SUPPORT = dict(file=FO, name="fv_norm", vis="pub(crate) ", code="""
    use crate::convolution::{Bound, Coefficients};

    /// Any Normalizer16 whose chunks satisfy the window invariant w.r.t. a source line of `src_len` pixels:
    /// `n_chunks` chunks, each with 1..=max_taps arbitrary i16 taps, start + len <= src_len.
    pub(crate) fn fv_any_normalizer16(n_chunks: usize, max_taps: usize, src_len: u32, pmin: u8, pmax: u8) -> Normalizer16 {
        let precision: u8 = kani::any();
        kani::assume(precision >= pmin && precision <= pmax);
        let mut chunks = Vec::with_capacity(n_chunks);
        for _ in 0..n_chunks {
            let len: usize = kani::any();
            kani::assume(len >= 1 && len <= max_taps);
            let mut values = Vec::with_capacity(max_taps);
            for i in 0..max_taps {
                if i < len { values.push(kani::any::<i16>()); }
            }
            let start: u32 = kani::any();
            kani::assume(start as u64 + len as u64 <= src_len as u64);
            chunks.push(CoefficientsI16Chunk { start, values });
        }
        Normalizer16 { precision, chunks }
    }

    pub(crate) fn fv_any_normalizer32(n_chunks: usize, max_taps: usize, src_len: u32, pmin: u8, pmax: u8) -> Normalizer32 {
        let precision: u8 = kani::any();
        kani::assume(precision >= pmin && precision <= pmax);
        let mut chunks = Vec::with_capacity(n_chunks);
        for _ in 0..n_chunks {
            let len: usize = kani::any();
            kani::assume(len >= 1 && len <= max_taps);
            let mut values = Vec::with_capacity(max_taps);
            for i in 0..max_taps {
                if i < len { values.push(kani::any::<i32>()); }
            }
            let start: u32 = kani::any();
            kani::assume(start as u64 + len as u64 <= src_len as u64);
            chunks.push(CoefficientsI32Chunk { start, values });
        }
        Normalizer32 { precision, chunks }
    }

    /// a Normalizer16 with the given precision and windows (start, taps)
    pub(crate) fn fv_norm16(precision: u8, windows: &[(u32, &[i16])]) -> Normalizer16 {
        let mut chunks = Vec::with_capacity(windows.len());
        for (start, taps) in windows.iter() {
            chunks.push(CoefficientsI16Chunk { start: *start, values: taps.to_vec() });
        }
        Normalizer16 { precision, chunks }
    }
    pub(crate) fn fv_norm32(precision: u8, windows: &[(u32, &[i32])]) -> Normalizer32 {
        let mut chunks = Vec::with_capacity(windows.len());
        for (start, taps) in windows.iter() {
            chunks.push(CoefficientsI32Chunk { start: *start, values: taps.to_vec() });
        }
        Normalizer32 { precision, chunks }
    }

    /// the C03 panic-free premise on one window, in fixed point: sum |k_i| < 4 * 2^p
    pub(crate) fn fv_headroom16(n: &Normalizer16) -> bool {
        let lim: i64 = 4i64 << n.precision;
        n.chunks.iter().all(|c| c.values.iter().map(|&k| (k as i64).abs()).sum::<i64>() < lim)
    }

    pub(crate) fn fv_oracle16(n: &Normalizer16, chunk: usize, px: &[u8]) -> u8 {
        let c = &n.chunks[chunk];
        let mut acc: i64 = 1i64 << (n.precision - 1);
        for (i, &k) in c.values.iter().enumerate() {
            acc += k as i64 * px[c.start as usize + i] as i64;
        }
        (acc >> n.precision).clamp(0, 255) as u8
    }

    pub(crate) fn fv_oracle32(n: &Normalizer32, chunk: usize, px: &[u16]) -> u16 {
        let c = &n.chunks[chunk];
        let mut acc: i64 = 1i64 << (n.precision - 1);      // |k| < 2^31, pixel < 2^16, <= 3 taps: no i64 overflow
        for (i, &k) in c.values.iter().enumerate() {
            acc += k as i64 * px[c.start as usize + i] as i64;
        }
        (acc >> n.precision).clamp(0, 65535) as u16
    }

    // ---- K4: Normalizer16::new on concrete windows (symbolic f64 weights exhaust memory: 12 GB in 100 s) --------------------
    fn k4_case(w: [f64; 3], size: u32, start: u32) {
        let c = Coefficients { values: vec![w[0], w[1], w[2]], window_size: 3, bounds: vec![Bound { start, size }] };
        let max_w = if w[0] >= w[1] && w[0] >= w[2] { w[0] } else if w[1] >= w[2] { w[1] } else { w[2] };
        let n = Normalizer16::new(c);
        let p = n.precision;
        assert!(p <= 21);
        if max_w < 4.0 { assert!(p >= 12); }
        // p is maximal: the next precision would not fit i16 (or the design limit 21 is reached)
        assert!(p == 21 || (max_w * (1u32 << (p + 1)) as f64).round() >= 32768.0);
        assert!(n.chunks.len() == 1 && n.chunks[0].start == start && n.chunks[0].values.len() == size as usize);
        let scale = (1u32 << p) as f64;
        let mut i = 0;
        while i < size as usize {
            assert!(n.chunks[0].values[i] == (w[i] * scale).round() as i16);      // k_i == saturating round(w_i * 2^p)
            i += 1;
        }
        if max_w >= 0.0 { assert!((max_w * scale).round() < 32768.0); }          // the largest weight is never saturated
    }

    #[kani::proof]
    #[kani::unwind(40)]      // the precision search runs <= 22 rounds; head-room so that a LONGER search reaches `assert!(p <= 21)` instead of the unwinding assertion
    fn k4_normalizer16_new_cases() {
        k4_case([0.25, 0.5, 0.25], 3, 0);
        k4_case([-0.0625, 1.125, -0.0625], 3, 7);
        k4_case([3.9, -2.9, 0.0], 2, 1);
        k4_case([0.00001, 0.00002, 0.00001], 3, 0);          // tiny weights (huge downscale): precision must reach 21
        k4_case([1000.0, -999.0, 0.0], 2, 0);               // custom filter with large weights: low precision
        k4_case([0.0, 0.0, 0.0], 0, 4);
    }
""")

FU8 = "src/convolution/u8x1/native.rs"
FU16 = "src/convolution/u16x1/native.rs"
FV8 = "src/convolution/vertical_u8/native.rs"
FU84 = "src/convolution/u8x4/native.rs"

# SAT cannot prove "kernel == formula" when taps AND pixels are symbolic (the operands reach the two multipliers through
# different memory paths; no answer in 15 min, z3 back end crashes in CBMC's SMT2 converter).  Each kernel is therefore tied to
# the formula on two complementary families: (A) concrete tap tables x ALL pixel values, (B) concrete pixel rows x ALL taps.
TAPS_A = [  # (precision, [(start, taps)] for 2 windows over a 4-pixel line)
    ("smooth", 14, "[(0, &[4096, 8192, 4096]), (1, &[8192, 8192])]"),
    ("sharpen", 14, "[(1, &[-1639, 19661, -1638]), (0, &[16384])]"),
    ("huge", 8, "[(2, &[30000, -29744]), (0, &[-32768, 32767, 257])]"),
    ("p21", 21, "[(0, &[32767, 32767]), (3, &[-32768])]"),
]

K7_U8X1 = dict(file=FU8, name="fv_k7_u8x1", code="""
    use crate::convolution::optimisations::fv_norm::*;
    use crate::images::{TypedImage, TypedImageRef};

    fn run(src_px: [u8; 4], n: &Normalizer16) -> [u8; 3] {
        let src: [U8; 4] = [U8::new(src_px[0]), U8::new(src_px[1]), U8::new(src_px[2]), U8::new(src_px[3])];
        let canary: u8 = kani::any();
        let mut dst = [U8::new(0), U8::new(0), U8::new(canary)];      // 2 pixels + 1 spare that must stay untouched
        {
            let s = TypedImageRef::new(4, 1, &src).unwrap();
            let mut d = TypedImage::from_pixels_slice(2, 1, &mut dst).unwrap();
            horiz_convolution(&s, &mut d, 0, n);
        }
        assert!(dst[2].0 == canary);
        assert!(src[0].0 == src_px[0] && src[1].0 == src_px[1] && src[2].0 == src_px[2] && src[3].0 == src_px[3]);
        [dst[0].0, dst[1].0, 0]
    }
""" + "".join("""
    #[kani::proof]
    #[kani::unwind(6)]
    fn k7_u8x1_taps_%s() {
        let px: [u8; 4] = kani::any();
        let n = fv_norm16(%d, &%s);
        let r = run(px, &n);
        %s
        assert!(r[0] == fv_oracle16(&n, 0, &px) && r[1] == fv_oracle16(&n, 1, &px));
    }
""" % (t + ("" if t[0] == "p21" else "kani::cover!(r[0] == 255);",)) for t in TAPS_A) + """
    #[kani::proof]
    #[kani::unwind(6)]
    fn k7_u8x1_pixels_fixed_any_taps() {
        let k: [i16; 5] = kani::any();
        let p: u8 = kani::any();
        kani::assume(p == 8 || p == 14 || p == 21);
        let n = fv_norm16(p, &[(0, &[k[0], k[1], k[2]]), (2, &[k[3], k[4]])]);
        let px = [255u8, 0, 17, 200];
        let r = run(px, &n);
        kani::cover!(r[1] == 3);
        assert!(r[0] == fv_oracle16(&n, 0, &px) && r[1] == fv_oracle16(&n, 1, &px));
    }

    #[kani::proof]
    #[kani::unwind(6)]
    fn k7_u8x1_any_window_position_memory_safe() {
        // memory safety only: ANY taps, ANY window positions satisfying WinInv, any pixels (value relation not asserted)
        let px: [u8; 4] = kani::any();
        let n = fv_any_normalizer16(2, 3, 4, 1, 21);
        let _ = run(px, &n);
    }
""")

K7_U16X1 = dict(file=FU16, name="fv_k7_u16x1", code="""
    use crate::convolution::optimisations::fv_norm::*;
    use crate::images::{TypedImage, TypedImageRef};

    fn run(src_px: [u16; 3], n: &Normalizer32) -> u16 {
        let src: [U16; 3] = [U16::new(src_px[0]), U16::new(src_px[1]), U16::new(src_px[2])];
        let canary: u16 = kani::any();
        let mut dst = [U16::new(0), U16::new(canary)];
        {
            let s = TypedImageRef::new(3, 1, &src).unwrap();
            let mut d = TypedImage::from_pixels_slice(1, 1, &mut dst).unwrap();
            horiz_convolution(&s, &mut d, 0, n);
        }
        assert!(dst[1].0 == canary);
        dst[0].0
    }

    #[kani::proof]
    #[kani::unwind(6)]
    fn k7_u16x1_taps_fixed() {
        let px: [u16; 3] = kani::any();
        let n = fv_norm32(30, &[(1, &[-107374182, 1288490188])]);
        let r = run(px, &n);
        kani::cover!(r == 65535);
        assert!(r == fv_oracle32(&n, 0, &px));
    }

    #[kani::proof]
    #[kani::unwind(6)]
    fn k7_u16x1_taps_p45() {
        let px: [u16; 3] = kani::any();
        let n2 = fv_norm32(45, &[(0, &[2147483647, 2147483647, -2147483648])]);
        assert!(run(px, &n2) == fv_oracle32(&n2, 0, &px));
    }

    #[kani::proof]
    #[kani::unwind(6)]
    fn k7_u16x1_pixels_fixed_any_taps() {
        let k: [i32; 2] = kani::any();
        let n = fv_norm32(30, &[(1, &[k[0], k[1]])]);
        let px = [65535u16, 1, 40000];
        assert!(run(px, &n) == fv_oracle32(&n, 0, &px));
    }
""")

K7_VERT_U8 = dict(file=FV8, name="fv_k7_vu8", code="""
    use crate::convolution::optimisations::fv_norm::*;
    use crate::images::{TypedImage, TypedImageRef};
    use crate::pixels::U8;

    fn run(sp: [u8; 9], n: &Normalizer16, offset: u32) {
        // 3 columns x 3 rows -> 2 columns (offset..offset+2) x 2 rows; destination starts with arbitrary content
        let src: [U8; 9] = [U8::new(sp[0]), U8::new(sp[1]), U8::new(sp[2]), U8::new(sp[3]), U8::new(sp[4]), U8::new(sp[5]),
                            U8::new(sp[6]), U8::new(sp[7]), U8::new(sp[8])];
        let stale: [u8; 5] = kani::any();
        let mut dst = [U8::new(stale[0]), U8::new(stale[1]), U8::new(stale[2]), U8::new(stale[3]), U8::new(stale[4])];
        {
            let s = TypedImageRef::new(3, 3, &src).unwrap();
            let mut d = TypedImage::from_pixels_slice(2, 2, &mut dst).unwrap();
            vert_convolution(&s, &mut d, offset, n);
        }
        let o = offset as usize;
        assert!(dst[0].0 == fv_oracle16(n, 0, &[sp[o], sp[3 + o], sp[6 + o]]));
        assert!(dst[1].0 == fv_oracle16(n, 0, &[sp[o + 1], sp[4 + o], sp[7 + o]]));
        assert!(dst[2].0 == fv_oracle16(n, 1, &[sp[o], sp[3 + o], sp[6 + o]]));
        assert!(dst[3].0 == fv_oracle16(n, 1, &[sp[o + 1], sp[4 + o], sp[7 + o]]));
        assert!(dst[4].0 == stale[4]);     // spare pixel untouched; the four results do not depend on `stale`: fully assigned
    }

    #[kani::proof]
    #[kani::unwind(8)]
    fn k7_vertical_u8_taps_fixed() {
        let offset: u32 = kani::any();
        kani::assume(offset <= 1);
        run(kani::any(), &fv_norm16(14, &[(0, &[4096, 12288]), (1, &[-1639, 18023])]), offset);
    }

    #[kani::proof]
    #[kani::unwind(8)]
    fn k7_vertical_u8_pixels_fixed_any_taps() {
        let k: [i16; 3] = kani::any();
        run([9, 255, 0, 31, 77, 128, 254, 1, 60], &fv_norm16(12, &[(1, &[k[0], k[1]]), (2, &[k[2]])]), 1);
    }
""")

K7_U8X4 = dict(file=FU84, name="fv_k7_u8x4", code="""
    use crate::convolution::optimisations::fv_norm::*;
    use crate::images::{TypedImage, TypedImageRef};

    #[kani::proof]
    #[kani::unwind(6)]
    fn k7_u8x4_taps_fixed() {
        let sp: [[u8; 4]; 3] = kani::any();
        let src = [U8x4::new(sp[0]), U8x4::new(sp[1]), U8x4::new(sp[2])];
        let canary: [u8; 4] = kani::any();
        let mut dst = [U8x4::new([0; 4]), U8x4::new(canary)];
        let n = fv_norm16(14, &[(1, &[-1639, 18023])]);
        {
            let s = TypedImageRef::new(3, 1, &src).unwrap();
            let mut d = TypedImage::from_pixels_slice(1, 1, &mut dst).unwrap();
            horiz_convolution(&s, &mut d, 0, &n);
        }
        // every channel (alpha included) is convolved independently with the same taps
        assert!(dst[0].0[0] == fv_oracle16(&n, 0, &[sp[0][0], sp[1][0], sp[2][0]]));
        assert!(dst[0].0[1] == fv_oracle16(&n, 0, &[sp[0][1], sp[1][1], sp[2][1]]));
        assert!(dst[0].0[2] == fv_oracle16(&n, 0, &[sp[0][2], sp[1][2], sp[2][2]]));
        assert!(dst[0].0[3] == fv_oracle16(&n, 0, &[sp[0][3], sp[1][3], sp[2][3]]));
        assert!(dst[1].0 == canary);
    }
""")

UNITS = [dict(
    id="K4",
    title="Normalizer16::new: precision range, k_i = round(w_i * 2^p), chunk shape copied from the bounds",
    assumptions=["bounded: six concrete windows (symbolic f64 weights exhaust memory); the quantisation of the real filters' windows is also exercised by unit W (premise harnesses)"],
    kani=dict(
        functions=[dict(file=FO, fn="new", within=r"impl Normalizer16")],
        modules=[SUPPORT],
        harnesses=[dict(name="k4_normalizer16_new_cases", kind="bounded", timeout=1500, props=["C01", "C10", "C18", "C03"],
                        bound="six concrete windows of 3 weights (smooth, sharpening, near the 4.0 head-room limit, tiny, huge custom, empty)",
                        claim="0<=p<=21 and p is the LARGEST precision whose max coefficient fits i16; max w < 4 => p >= 12; k_i == round(w_i*2^p) as i16; start/len copied; the max weight is not saturated")],
    ),
), dict(
    id="K7",
    title="native kernels compute the fixed-point formula fx (round half up, clamped); reads inside the window; frame",
    assumptions=["bounded / sampled: 'kernel == fx' is checked on (A) 4 concrete tap tables x ALL pixel values and (B) concrete pixel rows x ALL "
                 "tap values (SAT does not finish when both are symbolic); memory safety is checked with everything symbolic",
                 "u8x1, u8x4, u16x1 horizontal and the generic u8 vertical kernel; the other native kernels (u8x2, u8x3, u16x2..4, i32, f32, vertical u16/f32) are under contract in unit K10"],
    kani=dict(
        functions=[dict(file=FU8, fn="horiz_convolution"), dict(file=FU16, fn="horiz_convolution"), dict(file=FU84, fn="horiz_convolution"),
                   dict(file=FV8, fn="vert_convolution"), dict(file=FV8, fn="scale_row"), dict(file=FV8, fn="convolution_by_u8"), dict(file=FV8, fn="convolution_by_chunks")],
        modules=[SUPPORT, K7_U8X1, K7_U16X1, K7_VERT_U8, K7_U8X4],
        harnesses=[dict(name="k7_u8x1_taps_%s" % t[0], kind="bounded", covers=0 if t[0] == "p21" else 1, timeout=900, props=["C01", "C03", "C10", "C18", "C05"],
                        bound="tap table '%s' (precision %d, 2 windows over a 4-pixel line), ALL pixel values" % (t[0], t[1]),
                        claim="u8x1 horizontal kernel == fx for every pixel value; spare pixel and source untouched; table and row reads in bounds") for t in TAPS_A] + [
            dict(name="k7_u8x1_pixels_fixed_any_taps", kind="bounded", covers=1, timeout=900, props=["C01", "C03", "C10", "C18"], bound="pixel row [255,0,17,200], ALL i16 taps (3 + 2), precision 8 / 14 / 21",
                 claim="u8x1 horizontal kernel == fx for every tap value"),
            dict(name="k7_u8x1_any_window_position_memory_safe", kind="bounded", timeout=1500, props=["C03"],
                 bound="4-pixel line, 2 windows of 1..=3 taps at ANY position satisfying WinInv, ANY taps, ANY precision 1..=21, ANY pixels",
                 claim="memory safety for arbitrary finite custom kernels: every unchecked read (row window, clip table) is in bounds, no panic, frame"),
            dict(name="k7_u16x1_taps_fixed", kind="bounded", covers=1, timeout=900, props=["C01", "C03", "C10"], bound="one tap table (precision 30), ALL u16 pixel values", claim="u16x1 horizontal kernel == fx (16 bit), no i64 overflow, frame"),
            dict(name="k7_u16x1_taps_p45", kind="bounded", timeout=1500, tier="thorough", props=["C01", "C03"], bound="tap table at precision 45 (3 taps of extreme magnitude), ALL u16 pixel values", claim="u16x1 horizontal kernel == fx, no i64 overflow"),
            dict(name="k7_u16x1_pixels_fixed_any_taps", kind="bounded", timeout=900, props=["C01", "C03"], bound="pixel row [65535,1,40000], ALL i32 taps (2), precision 30", claim="u16x1 horizontal kernel == fx for every tap value"),
            dict(name="k7_vertical_u8_taps_fixed", kind="bounded", timeout=1500, props=["C01", "C03", "C05", "C09"], bound="U8 3x3 -> 2x2, column offset 0..=1 symbolic, one tap table, ALL pixel values, arbitrary stale destination",
                 claim="vertical u8 kernel == fx over the source column; result independent of the stale destination; spare pixel untouched"),
            dict(name="k7_vertical_u8_pixels_fixed_any_taps", kind="bounded", timeout=1500, props=["C01", "C03"], bound="concrete 3x3 image, ALL taps (2 + 1), precision 12", claim="vertical u8 kernel == fx for every tap value"),
            dict(name="k7_u8x4_taps_fixed", kind="bounded", timeout=900, props=["C01", "C07", "C03", "C05"], bound="U8x4 3x1 -> 1x1, one tap table, ALL pixel values",
                 claim="all four channels (alpha included) are convolved independently with the same taps; spare pixel untouched"),
        ],
    ),
)]
