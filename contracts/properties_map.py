"""Property -> contract units.  level = MANIFEST level; not_decided = clauses
outside the reach of the contracts (reported in every evidence file)."""

PROPS = {
    "C04": dict(
        units=["G1", "G2", "G3", "G4"],
        level="proof",
        level_text="Accept <=> inside is a postcondition of the real validation functions, discharged for every u32/f64/usize "
                   "argument (Verus on the extracted check_crop_box; loop-free Kani harnesses over full-domain symbolic inputs on "
                   "the real crate). Proof is the right level because validation is straight-line arithmetic.",
        level_note="Trusted: Verus/Z3, Kani/CBMC, the weaver (erasure-checked each run), Kani's nightly rustc vs the repo's stable rustc.",
        not_decided=[],
    ),
    "C06": dict(
        units=["A1", "A2", "A3", "A4"],
        level="proof",
        level_text="Exact rounding of multiply and faithful, saturating divide are postconditions of the real arithmetic functions, "
                   "discharged by Verus for every 8-bit and every 16-bit (colour, alpha) pair (bit-vector and integer lemmas), the "
                   "reciprocal tables by loop invariants over all entries.",
        level_note="Trusted: Verus/Z3, Kani/CBMC, the weaver. div_and_clip16 is proved against the closed form of the table entry.",
        not_decided=[],
    ),
    "C08": dict(
        units=["T1"],
        level="proof",
        level_text="Claimed for the band-arithmetic and tiling clauses only: the band-count functions are total and in range for all "
                   "u32 sizes, and (G5a) the split arithmetic yields an exact tiling for every part count, so no unwrap in the "
                   "splitting path can fire. The for-all-schedules clause is NOT decided by this technique.",
        level_note="Trusted: Verus/Z3, Kani/CBMC, the weaver. rayon glue macros are read, not verified; no thread is ever run.",
        not_decided=["for all interleavings / OS schedules (Kani has no threads; Verus would need the code rewritten with permission types)",
                     "that rayon executes exactly the (src band, dst band) tasks the split returns", "Send/Sync promise of UnsafeImageMut"],
    ),
    "C11": dict(
        units=["G7"],
        level="proof",
        level_text="The source column/row chosen for a destination pixel is a postcondition of the index computation, discharged "
                   "for every accepted f64 crop box and every u32 size by loop-free Kani harnesses on the verbatim slice; the "
                   "bit-exact copy is checked on the whole real function at small sizes (bounded, labelled).",
        level_note="Trusted: Kani/CBMC float model, the slice recipe (closure applied pointwise by std iterators).",
        not_decided=[],
    ),
    "C17": dict(
        units=["M1"],
        level="proof",
        level_text="Each clause (endpoints, monotone, saturating, lossless widening) is a postcondition of the 12 real conversion "
                   "functions, discharged by loop-free Kani harnesses over the full input domain (relational harnesses with two "
                   "symbolic inputs for monotonicity).",
        level_note="Trusted: Kani/CBMC incl. its IEEE-754 f32 model; the image-level loop (M2) is checked bounded.",
        not_decided=[],
    ),
    "C14": dict(
        units=["G5a", "G4"],
        level="proof",
        level_text="The size arithmetic of the four default split bodies (None-condition, count, order, sizes differing by at most one, "
                   "exact cover, every sub-rectangle accepted so no unwrap fires) is proved by Verus for ALL u32 arguments on a "
                   "statement slice. Pixel identity of the returned parts (by address, hence no aliasing) is checked on the real "
                   "containers by bounded Kani harnesses and reported separately.",
        level_note="Trusted: Verus/Z3, Kani/CBMC, the weaver; slice substitutions are listed in the evidence (callee -> contract stand-in).",
        not_decided=["pixel identity by address for views larger than the bounded harnesses (concrete sizes <= 5 px per side)"],
    ),
    "C15": dict(
        units=["G6"],
        level="proof",
        level_text="Positivity, finiteness, full extent in one dimension and the centering identity are postconditions discharged for all "
                   "sizes 1..65535 and all non-NaN centerings (loop-free Kani). The in-bounds and aspect clauses are discharged only for "
                   "sizes <= 255 (bounded, labelled) in the quick tier; the full-range versions run in the thorough tier.",
        level_note="Trusted: Kani/CBMC IEEE-754 f64 model.",
        not_decided=["in-bounds and aspect clauses for sizes 256..65535 unless the thorough-tier harnesses finish"],
    ),
    "C12": dict(
        units=["P"],
        level="model_checking",
        level_text="Bounded: the copy path, copy_image's contract and the pass-planning obligations are checked by Kani on the real "
                   "resize_typed with small concrete sizes, symbolic contents, symbolic integer crop origin and a symbolic algorithm "
                   "(all variants, filters, multiplicities). The deciding step is bounded in image size, hence not claimed as proof.",
        level_note="Trusted: Kani/CBMC; Form-M contract stand-ins for the coefficient tables (justified by units K6/K4).",
        not_decided=["sizes beyond 3x3", "SIMD back-ends"],
    ),
    "C03": dict(
        units=["G1", "G2", "G3", "G4", "G7", "K1", "K2", "K5", "K6", "K7", "A3", "T1", "G5a", "P"],
        level="proof",
        level_text="C03 is decided as the conjunction of the safety obligations of the units under contract: arithmetic overflow, division "
                   "by zero, array bounds, unwrap, pointer validity of every unchecked access are obligations generated by Verus / CBMC for "
                   "each unit; validation (G1-G3), the nearest index (G7), clip (K2), dispatch (K5) and the band arithmetic (T1, G5a) are "
                   "complete proofs; window invariant, kernels, views and pipeline glue are bounded checks, reported separately.",
        level_note="Scope: the functions under contract only (N5). SIMD kernels, NEON/WASM, rayon glue and the image-crate integration are not examined.",
        not_decided=["whole-repository panic freedom (only the listed units)", "SIMD convolution kernels (outside C02's reach)", "NEON / WASM back-ends",
                     "rayon scheduling", "sizes beyond the bounded harnesses for the pipeline glue"],
    ),
}
