"""Property -> contract units.  level = MANIFEST level; not_decided = clauses
outside the reach of the contracts (reported in every evidence file)."""

PROPS = {
    "C04": dict(
        units=["G1", "G2", "G3"],
        level="proof",
        level_text="Accept <=> inside is a postcondition of the real validation functions, discharged for every u32/f64/usize "
                   "argument (Verus on the extracted check_crop_box; loop-free Kani harnesses over full-domain symbolic inputs on "
                   "the real crate). Proof is the right level because validation is straight-line arithmetic.",
        level_note="Trusted: Verus/Z3, Kani/CBMC, the weaver (erasure-checked each run), Kani's nightly rustc vs the repo's stable rustc.",
        not_decided=[],
    ),
}
