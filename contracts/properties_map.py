"""Property -> contract units.  level = MANIFEST level; not_decided = clauses
outside the reach of the contracts (reported in every evidence file)."""

PROPS = {
    "C04": dict(
        units=["G1", "G2", "G3", "G4"],
        level="proof",
        level_text="Accept <=> inside is a postcondition of the real validation functions, discharged for every u32/f64/usize "
                   "argument (Verus on the extracted check_crop_box; loop-free Kani harnesses over full-domain symbolic inputs on "
                   "the real crate). Proof is the right level because validation is straight-line arithmetic.",
        level_note="Trusted: Verus/Z3, Kani/CBMC, the weaver (erasure-checked each run), Kani's nightly rustc vs the repo's stable rustc.",
        not_decided=[],
    ),
    "C06": dict(
        units=["A1", "A2", "A3", "A4", "A6", "A7"],
        quick_skip=[r"^a7_u(8|16)x\d_avx2_divide$", r"^a7_.*native_grid$"],
        level="proof",
        level_text="Exact rounding of multiply and faithful, saturating divide are postconditions of the real arithmetic functions, "
                   "discharged by Verus for every 8-bit and every 16-bit (colour, alpha) pair (bit-vector and integer lemmas), the "
                   "reciprocal tables by loop invariants over all entries.",
        level_note="Trusted: Verus/Z3, Kani/CBMC, the weaver. div_and_clip16 is proved against the closed form of the table entry.",
        not_decided=[],
    ),
    "C08": dict(
        units=["T1", "G5a", "G5c", "G4"],
        level="proof",
        level_text="Claimed for the band-arithmetic and tiling clauses only: the band-count functions are total and in range for all "
                   "u32 sizes, and (G5a) the split arithmetic yields an exact tiling for every part count, so no unwrap in the "
                   "splitting path can fire. The for-all-schedules clause is NOT decided by this technique.",
        level_note="Trusted: Verus/Z3, Kani/CBMC, the weaver. rayon glue macros are read, not verified; no thread is ever run.",
        not_decided=["for all interleavings / OS schedules (Kani has no threads; Verus would need the code rewritten with permission types)",
                     "that rayon executes exactly the (src band, dst band) tasks the split returns", "Send/Sync promise of UnsafeImageMut"],
    ),
    "C11": dict(
        units=["G7", "P"],
        level="proof",
        level_text="The source column/row chosen for a destination pixel is a postcondition of the index computation, discharged "
                   "for every accepted f64 crop box and every u32 size by loop-free Kani harnesses on the verbatim slice; the "
                   "bit-exact copy is checked on the whole real function at small sizes (bounded, labelled).",
        level_note="Trusted: Kani/CBMC float model, the slice recipe (closure applied pointwise by std iterators).",
        not_decided=[],
    ),
    "C17": dict(
        units=["M1"],
        level="proof",
        level_text="Each clause (endpoints, monotone, saturating, lossless widening) is a postcondition of the 12 real conversion "
                   "functions, discharged by loop-free Kani harnesses over the full input domain (relational harnesses with two "
                   "symbolic inputs for monotonicity).",
        level_note="Trusted: Kani/CBMC incl. its IEEE-754 f32 model; the image-level loop (M2) is checked bounded.",
        not_decided=[],
    ),
    "C14": dict(
        units=["G5a", "G5c", "G4"],
        level="proof",
        level_text="(G5c: the TypedImageRef / TypedImage split_by_height{,_mut} specialisations tile the pixel BUFFER exactly for all u32 - offsets and "
                   "lengths in pixels, split_at and constructor preconditions discharged.) The size arithmetic of the four default split bodies (None-condition, count, order, sizes differing by at most one, "
                   "exact cover, every sub-rectangle accepted so no unwrap fires) is proved by Verus for ALL u32 arguments on a "
                   "statement slice. Pixel identity of the returned parts (by address, hence no aliasing) is checked on the real "
                   "containers by bounded Kani harnesses and reported separately.",
        level_note="Trusted: Verus/Z3, Kani/CBMC, the weaver; slice substitutions are listed in the evidence (callee -> contract stand-in).",
        not_decided=["pixel identity by address for views larger than the bounded harnesses (concrete sizes <= 5 px per side)"],
    ),
    "C15": dict(
        units=["G6"],
        level="proof",
        level_text="Positivity, finiteness and full extent in one dimension are postconditions discharged for all sizes 1..65535 and all "
                   "non-NaN centerings (loop-free Kani). The in-bounds, aspect and centering clauses depend on division-times-multiplication "
                   "rounding that SAT does not settle; they are evaluated on a grid of 6480 concrete (sizes, centering) combinations "
                   "(bounded, labelled); the full-range versions run in the thorough tier.",
        level_note="Trusted: Kani/CBMC IEEE-754 f64 model.",
        not_decided=["in-bounds, aspect and centering clauses outside the evaluated grid unless the thorough-tier harnesses finish"],
    ),
    "C12": dict(
        units=["P"],
        level="model_checking",
        level_text="Bounded: the copy path, copy_image's contract and the pass-planning obligations are checked by Kani on the real "
                   "resize_typed with small concrete sizes, symbolic contents, symbolic integer crop origin and a symbolic algorithm "
                   "(all variants, filters, multiplicities). The deciding step is bounded in image size, hence not claimed as proof.",
        level_note="Trusted: Kani/CBMC; Form-M contract stand-ins for the coefficient tables (justified by units K6/K4).",
        not_decided=["sizes beyond 3x3", "SIMD back-ends"],
    ),
    "C03": dict(
        units=["G1", "G2", "G3", "G4", "G7", "K1", "K2", "K5", "K6", "K7", "A3", "T1", "G5a", "G5c", "P", "K9", "K10"],
        quick_skip=[r"^k9_(?!u8x3_(sse4|avx2)_one_row_w2|vertical_(sse4|avx2)_u8_w7_t2)", r"^g5b_", r"^c12_copy_(1x3|3x2|3x3)$", r"^g3_typed_(ref_)?from_buffer_(u8x3|u16x2)$", r"^g8_temp_image_(u16x2|zero)$", r"^k7_u16x1", r"^k8_plan", r"^k10_(u16|f32x[234]|i32x1_vertical|vertical)"],
        level="proof",
        level_text="C03 is decided as the conjunction of the safety obligations of the units under contract: arithmetic overflow, division "
                   "by zero, array bounds, unwrap, pointer validity of every unchecked access are obligations generated by Verus / CBMC for "
                   "each unit; validation (G1-G3), the nearest index (G7), clip (K2), dispatch (K5) and the band arithmetic (T1, G5a) are "
                   "complete proofs; window invariant, kernels, views and pipeline glue are bounded checks, reported separately.",
        level_note="Scope: the functions under contract only (N5). SIMD kernels, NEON/WASM, rayon glue and the image-crate integration are not examined.",
        not_decided=["whole-repository panic freedom (only the listed units)", "SIMD convolution kernels (outside C02's reach)", "NEON / WASM back-ends",
                     "rayon scheduling", "sizes beyond the bounded harnesses for the pipeline glue"],
    ),
    "C01": dict(
        units=["W", "K4", "K6", "K7", "K10", "L1", "P"],
        level="model_checking",
        level_text="Bounded in geometry: every weight of the real precompute_coefficients equals an oracle written from the statement "
                   "(centre mapping, documented kernel and support, normalisation) within 1e-12 on enumerated 1-D geometries for the four "
                   "polynomial filters; Normalizer16::new quantises as round(w*2^p) (one symbolic window); the native kernels of every "
                   "pixel format compute the round-half-up fixed-point formula (K7, K10: concrete taps x all pixels, all taps x concrete pixels; float "
                   "and i32 kernels: the f64 sum in window order on concrete grids); pass planning is observed "
                   "through the requested tables. The composed error bound is a four-line derivation over these contracts, not one theorem.",
        level_note="Trusted: Kani/CBMC float model. Lanczos3/Hamming/Gaussian VALUES are not decided (sin/cos/exp have no model); they share "
                   "all code except their fn(f64)->f64 and their get_filter_func entry with the four filters that are checked.",
        not_decided=["values of Lanczos3, Hamming, Gaussian weights (N1)", "geometries beyond the enumerated ones", "SIMD kernels of the u16 / i32 / f32 formats (the u8 family is compared with the native kernels under C02); the float native kernels only on concrete grids",
                     "kernel == formula when taps AND pixels are symbolic together (SAT does not finish)"],
    ),
    "C10": dict(
        units=["L1", "W", "K7", "K4", "K9", "K10"],
        quick_skip=[r"^k9_(?!native|vertical_(sse4|avx2)_u8_w7_t2|u8x4_avx2_one_row_w0)", r"^k7_u16x1_taps_fixed$"],
        level="model_checking",
        level_text="The conditional lemma (taps summing to 2^p + e with |e|*max < 2^(p-1) reproduce every uniform value exactly, any window "
                   "length) is PROVED by Verus over the fixed-point formula. Its premise is established on the real taps only for enumerated "
                   "windows of the four polynomial filters, and the tie kernel == formula is bounded, hence model_checking.",
        level_note="Lanczos3/Hamming/Gaussian windows and kernel lengths in the thousands: premise not established (N1, N3).",
        not_decided=["premise for Lanczos3 / Hamming / Gaussian", "premise for geometries beyond the enumerated ones", "float formats", "SIMD back-ends"],
    ),
    "C18": dict(
        units=["L1", "W", "K7", "K4", "K9", "K10"],
        quick_skip=[r"^k9_(?!native|vertical_(sse4|avx2)_u8_w7_t2|u8x4_avx2_one_row_w0)"],
        level="model_checking",
        level_text="Order preservation and no-overshoot for non-negative taps are PROVED by Verus over the fixed-point formula for any window "
                   "length; Box and Bilinear are proved non-negative for every f64. The tie kernel == formula and the partition premise "
                   "are bounded.",
        level_note="Hamming / Gaussian non-negativity is a statement about sin/cos/exp (N1) and is assumed.",
        not_decided=["non-negativity of Hamming and Gaussian (N1)", "float formats (one ulp)", "two-pass composition beyond the per-pass lemma", "SIMD back-ends"],
    ),
    "C16": dict(
        units=["M3", "M1"],
        level="proof",
        level_text="Scope stated: the table-element contract (entry == round(f(i/(SIZE-1))*max), monotone f => monotone table, f(0)=0 and "
                   "f(1)=1 => endpoints fixed) is discharged for an ARBITRARY transfer function value by loop-free Kani harnesses on the "
                   "verbatim slice of MappingTable::new; alpha is depth-converted (M1, complete) and never looked up (rows, bounded).",
        level_note="That srgb/gamma curves are monotone with fixed endpoints, the table VALUES and the 8->16->8 round trip are statements about "
                   "libm powf: not decided (N1), listed as assumptions.",
        not_decided=["powf-based transfer functions are monotone with f(0)=0, f(1)=1 (N1)", "table values of the sRGB / gamma mappers", "8-bit sRGB -> 16-bit linear -> 8-bit round trip",
                     ],
    ),
    "C05": dict(
        units=["G4", "K7", "K10", "P", "A6", "M1", "M3"],
        level="model_checking",
        level_text="Frame conditions checked bounded: every container hands out exactly its width x height rectangle by address (G4); kernels, "
                   "copy, nearest, alpha ops, component conversion and mapping write the destination rows only (spare pixel / surroundings of "
                   "a cropped view unchanged, source unchanged, rejected calls write nothing), and results do not depend on stale content.",
        level_note="Bounded image sizes; portable back-end; no threads.",
        not_decided=["thread counts (N2)", "sizes beyond the bounds", "SIMD back-ends", "two-pass convolution into a cropped view (Form-M two-pass harnesses exceed the time box)"],
    ),
    "C07": dict(
        units=["A1", "A3", "A6", "K7", "L1", "P"],
        level="model_checking",
        level_text="Complete facts: f(c,0)=0 and f(c,M)=c for multiply, a=0 -> 0 and a=M identity for divide (Verus, all pairs). Bounded glue: "
                   "sources differing only under alpha=0 premultiply to identical images (so everything downstream is identical), alpha is "
                   "convolved as a plain channel with the same taps (K7 U8x4), opaque alpha stays at max (C10 lemma).",
        level_note="The end-to-end statement is a composition of these contracts (DESIGN 4/C07), not one machine-checked theorem.",
        not_decided=["end-to-end resize with alpha as one obligation", "F32 alpha formats", "SIMD alpha paths beyond C02/C06"],
    ),
    "C09": dict(
        units=["P", "K7"],
        level="model_checking",
        level_text="Bounded: get_temp_image_from_buffer returns a correctly sized, aligned image for every incoming buffer length, capacity "
                   "and content and never shrinks the buffer; kernels assign every destination pixel independently of its previous content "
                   "(stale symbolic destination), so scratch images are fully overwritten before being read.",
        level_note="The only state a Resizer keeps between calls is three byte buffers; sequences longer than one call add nothing beyond "
                   "an arbitrary incoming buffer state, which the harness quantifies over (length <= 40 bytes).",
        not_decided=["buffers longer than 40 bytes / images larger than 2 pixels in the scratch harness", "clone() and reset_internal_buffers() (trivially return to a covered state)"],
    ),
    "C13": dict(
        units=["G4", "G7", "P", "A6"],
        level="model_checking",
        level_text="Kernels only observe a container through ImageView/ImageViewMut; G4 shows by address that owned, borrowed, cropped and "
                   "nested-cropped containers expose the same width x height matrix (bounded sizes, symbolic crop), and the nearest / alpha "
                   "harnesses run through cropped views inside larger parents.",
        level_note="Parametricity of the generic kernels is a typing argument, not a machine-checked theorem.",
        not_decided=["dynamic (Image / ImageRef / CroppedImage) vs typed entry point equality as one obligation", "sizes beyond the bounds"],
    ),
    "C02": dict(
        units=["A7", "A8", "K5", "K9"],
        quick_skip=[r"^a8_.*avx2", r"^a8_u8x2", r"^a8_f32x4", r"^a7_u(8|16)x\d_avx2_divide$", r"^a7_.*native_grid$", ],
        level="proof",
        level_text="Scope: the alpha kernels, the precision dispatch and (bounded) the u8 convolution kernels. The SSE4.1 / AVX2 u8 convolution kernels "
                   "(vertical u8 generic, u8x4, u8x3, u8x2 horizontal) are compared byte for byte with the portable kernels on concrete tap tables "
                   "covering every tap stage, remainder and leftover-row branch, for ALL pixel values, with the source rows at the end of their "
                   "allocations (over-reads are reported) - bounded (K9). Every SSE4.1 / AVX2 per-vector alpha function (U8x2, U8x4, U16x2, U16x4: "
                   "byte-identical to / within the stated bound of the portable function; F32: every lane is the IEEE quotient / product of "
                   "its own pixel) is discharged loop-free over ALL 128/256-bit inputs, modulo the E4 instruction models; row drivers are "
                   "checked bounded for every remainder length; constify_imm8! covers every reachable precision (mechanical).",
        level_note="E4 instruction models are an assumed contract on the hardware, cross-checked on this host by tools/simd_model_selftest.sh at setup. "
                   "u8x1, u16 and f32 SIMD convolution kernels, NEON and WASM are NOT under contract: a change there is not detected.",
        not_decided=["SSE4.1 / AVX2 convolution kernels for u8x1, u16x1..4, f32x1..4 and vertical u16 / f32; u8x2 AVX2 one-row path for windows of >= 16 taps", "u8 kernels: tap tables other than the sampled ones (taps AND pixels symbolic does not finish)", "NEON and WASM back-ends (not compiled on this host)",
                     "CpuExtensions::default() (CPUID)", "rows longer than 2*lanes+1 pixels"],
    ),
}
