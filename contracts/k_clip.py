"""K1-K3 — clip tables and clip functions of src/convolution/optimisations.rs.

Oracle: clip(v) = clamp(v >> precision, 0, 255) for 8 bit (table of 1280 entries
covering -640..=639), clamp(v >> precision, 0, 65535) for 16 bit.
"""

F = "src/convolution/optimisations.rs"

UNITS = [dict(
    id="K1",
    title="get_clip_table: T[i] == clamp(i - 640, 0, 255) for every i < 1280 (loop invariants)",
    verus=dict(
        prelude="""
pub open spec fn clip8(i: int) -> int { if i < 640 { 0 } else if i - 640 > 255 { 255 } else { i - 640 } }
""",
        fns=[dict(file=F, name="get_clip_table", ret="table",
                  header="""ensures forall|j: int| 0 <= j < 1280 ==> (#[trigger] table[j]) as int == clip8(j),""",
                  loops=[dict(anchor="while i < 640 + 255", text="""invariant 640 <= i <= 895,
            forall|j: int| 0 <= j < 640 ==> (#[trigger] table[j]) == 0,
            forall|j: int| 640 <= j < i ==> (#[trigger] table[j]) as int == j - 640,
            forall|j: int| i <= j < 1280 ==> (#[trigger] table[j]) == 0,
        decreases 895 - i,"""),
                         dict(anchor="while i < 1280", text="""invariant 895 <= i <= 1280,
            forall|j: int| 0 <= j < 640 ==> (#[trigger] table[j]) == 0,
            forall|j: int| 640 <= j < 895 ==> (#[trigger] table[j]) as int == j - 640,
            forall|j: int| 895 <= j < i ==> (#[trigger] table[j]) == 255,
        decreases 1280 - i,""")],
                  obligations=["CLIP8 table entry i equals clamp(i-640, 0, 255) for all 1280 entries", "no out-of-bounds write, no overflow"])],
    ),
), dict(
    id="K2",
    title="Normalizer16::clip / Normalizer32::clip: clamp(v >> precision) and table access in bounds",
    assumptions=["Normalizer16::clip is total for every i32 accumulator (precondition: precision <= 31, the shift amount); "
                 "on the pinned tree it required -640 <= (v >> precision) <= 639 and read outside the table otherwise - repaired (fix: commit)"],
    kani=dict(
        functions=[dict(file=F, fn="clip", within=r"impl Normalizer16"), dict(file=F, fn="clip", within=r"impl Normalizer32")],
        attrs=[dict(file=F, fn="clip", within=r"impl Normalizer16", lines=[
            "#[cfg_attr(kani, kani::requires(self.precision <= 31))]",
            "#[cfg_attr(kani, kani::ensures(|r: &u8| *r as i32 == (old(v >> self.precision)).clamp(0, 255)))]",
        ])],
        modules=[dict(file=F, name="fv_k2", code="""
    #[kani::proof_for_contract(Normalizer16::clip)]
    fn k2_clip16_contract() {
        let n = Normalizer16 { precision: kani::any(), chunks: Vec::new() };
        let v: i32 = kani::any();
        let _ = unsafe { n.clip(v) };
    }

    #[kani::proof]
    fn k2_clip_table_static() {
        // the static really is the table K1 proves (all 1280 entries, symbolic index)
        let i: usize = kani::any();
        kani::assume(i < 1280);
        let want = if i < 640 { 0 } else if i - 640 > 255 { 255 } else { i - 640 };
        assert!(CLIP8_LOOKUPS[i] as usize == want);
    }

    #[kani::proof]
    fn k3_clip32_total() {
        let n = Normalizer32 { precision: kani::any(), chunks: Vec::new() };
        kani::assume(n.precision <= 45);
        let v: i64 = kani::any();
        let r = n.clip(v);
        kani::cover!(r == 65535);
        assert!(r as i64 == (v >> n.precision).clamp(0, 65535));
    }
""")],
        harnesses=[
            dict(name="k2_clip16_contract", kind="complete", timeout=300,
                 claim="Normalizer16::clip meets its contract for EVERY i32 accumulator: result == clamp(v>>p, 0, 255), the unchecked table read is in bounds"),
            dict(name="k2_clip_table_static", kind="complete", timeout=300,
                 claim="static CLIP8_LOOKUPS[i] == clamp(i-640, 0, 255) for every i < 1280 (twin of K1 on the evaluated static)"),
            dict(name="k3_clip32_total", kind="complete", covers=1, timeout=300,
                 claim="Normalizer32::clip is total: clamp(v >> p, 0, 65535) for all i64 v, all precisions 0..=45"),
        ],
    ),
)]
