"""M1 — the 12 IntoPixelComponent conversions of src/pixels.rs (C17).

Oracle (statement of C17): min -> min, max -> max, monotone non-decreasing,
float input saturates, widening then narrowing is the identity.
Component ranges: u8 [0,255], u16 [0,65535], f32 [0,1] against unsigned types and
[-1,1] against i32, i32 [0,MAX] against unsigned types and [MIN,MAX] against f32.
"""

F = "src/pixels.rs"

def mono(name, s, d, assume="true"):
    return """
    #[kani::proof]
    fn %s() {
        let (a, b): (%s, %s) = (kani::any(), kani::any());
        kani::assume(a <= b && %s);
        let (fa, fb): (%s, %s) = (a.into_component(), b.into_component());
        kani::cover!(fa < fb);
        assert!(fa <= fb);
    }
""" % (name, s, s, assume, d, d)

CODE = """
    fn cv<S: IntoPixelComponent<D>, D: PixelComponent>(s: S) -> D { s.into_component() }
""" + "".join([
    mono("m1_mono_u8_u16", "u8", "u16"), mono("m1_mono_u8_i32", "u8", "i32"), mono("m1_mono_u8_f32", "u8", "f32"),
    mono("m1_mono_u16_u8", "u16", "u8"), mono("m1_mono_u16_i32", "u16", "i32"), mono("m1_mono_u16_f32", "u16", "f32"),
    mono("m1_mono_i32_u8", "i32", "u8"), mono("m1_mono_i32_u16", "i32", "u16"), mono("m1_mono_i32_f32", "i32", "f32"),
    mono("m1_mono_f32_u8", "f32", "u8"), mono("m1_mono_f32_u16", "f32", "u16"), mono("m1_mono_f32_i32", "f32", "i32"),
]) + """
    #[kani::proof]
    fn m1_endpoints() {
        // unsigned <-> unsigned / float
        assert!(cv::<u8, u16>(0) == 0 && cv::<u8, u16>(255) == 65535);
        assert!(cv::<u16, u8>(0) == 0 && cv::<u16, u8>(65535) == 255);
        assert!(cv::<u8, f32>(0) == 0.0 && cv::<u8, f32>(255) == 1.0);
        assert!(cv::<u16, f32>(0) == 0.0 && cv::<u16, f32>(65535) == 1.0);
        assert!(cv::<f32, u8>(0.0) == 0 && cv::<f32, u8>(1.0) == 255);
        assert!(cv::<f32, u16>(0.0) == 0 && cv::<f32, u16>(1.0) == 65535);
        // i32 -> unsigned: [0, MAX] -> full range, negatives clamp to 0
        assert!(cv::<i32, u8>(0) == 0 && cv::<i32, u8>(i32::MAX) == 255 && cv::<i32, u8>(i32::MIN) == 0);
        assert!(cv::<i32, u16>(0) == 0 && cv::<i32, u16>(i32::MAX) == 65535 && cv::<i32, u16>(i32::MIN) == 0);
        // unsigned -> i32: lower endpoint
        assert!(cv::<u8, i32>(0) == 0 && cv::<u16, i32>(0) == 0);
        // i32 <-> f32: [MIN, MAX] <-> [-1, 1]
        assert!(cv::<i32, f32>(0) == 0.0 && cv::<i32, f32>(i32::MAX) == 1.0 && cv::<i32, f32>(i32::MIN) == -1.0);
        assert!(cv::<f32, i32>(0.0) == 0 && cv::<f32, i32>(1.0) == i32::MAX && cv::<f32, i32>(-1.0) == i32::MIN);
    }

    #[kani::proof]
    fn m1_endpoints_unsigned_to_i32_max() {
        // statement of C17 read literally: max -> max
        assert!(cv::<u8, i32>(255) == i32::MAX);
        assert!(cv::<u16, i32>(65535) == i32::MAX);
    }

    #[kani::proof]
    fn m1_roundtrip_widening() {
        let a: u8 = kani::any();
        let b: u16 = kani::any();
        assert!(cv::<u16, u8>(cv::<u8, u16>(a)) == a);
        assert!(cv::<i32, u8>(cv::<u8, i32>(a)) == a);
        assert!(cv::<f32, u8>(cv::<u8, f32>(a)) == a);
        assert!(cv::<i32, u16>(cv::<u16, i32>(b)) == b);
        assert!(cv::<f32, u16>(cv::<u16, f32>(b)) == b);
        assert!(cv::<u8, u8>(a) == a && cv::<u16, u16>(b) == b);
    }

    #[kani::proof]
    fn m1_float_saturates() {
        let f: f32 = kani::any();   // NaN, +-inf, out of range included: no panic, result in range
        let a: u8 = cv(f);
        let b: u16 = cv(f);
        let c: i32 = cv(f);
        if f >= 1.0 { assert!(a == 255 && b == 65535 && c == i32::MAX); }
        if f <= 0.0 { assert!(a == 0 && b == 0); }
        if f <= -1.0 { assert!(c == i32::MIN); }
        kani::cover!(f.is_nan());
        kani::cover!(f > 2.0);
        let g: i32 = kani::any();
        let h: f32 = cv(g);
        assert!(h >= -1.0 && h <= 1.0);
    }
"""

M2_CODE = """
    use crate::images::{TypedImage, TypedImageRef};
    use crate::pixels::{U8x2, U16x2, F32x2, I32, U16};

    fn m2_run(dw: u32, dh: u32) {
        let sp: [u8; 8] = kani::any();
        let src: [U8x2; 4] = core::array::from_fn(|i| U8x2::new([sp[2 * i], sp[2 * i + 1]]));
        let mut dst = [U16x2::new([7, 9]); 5];
        let r;
        {
            let s = TypedImageRef::new(2, 2, &src).unwrap();
            let mut d = TypedImage::from_pixels_slice(dw, dh, &mut dst).unwrap();
            r = change_type_of_pixel_components_typed(&s, &mut d);
        }
        assert!(r.is_ok() == (dw == 2 && dh == 2));
        if r.is_ok() {
            for i in 0..4 {
                let want: [u16; 2] = [sp[2 * i].into_component(), sp[2 * i + 1].into_component()];
                assert!(dst[i].0 == want);
            }
            assert!(dst[4].0 == [7, 9]);
        } else {
            for i in 0..5 { assert!(dst[i].0 == [7, 9]); }   // rejected: destination untouched
        }
    }
    #[kani::proof] #[kani::unwind(8)] fn m2_same_size() { m2_run(2, 2) }
    #[kani::proof] #[kani::unwind(8)] fn m2_width_differs() { m2_run(1, 2) }
    #[kani::proof] #[kani::unwind(8)] fn m2_height_differs() { m2_run(2, 1) }
    #[kani::proof] #[kani::unwind(8)] fn m2_both_differ() { m2_run(1, 1) }
    #[kani::proof] #[kani::unwind(8)] fn m2_zero_height() { m2_run(2, 0) }
"""

HS = [dict(name=n, kind="complete", covers=1, timeout=600, props=["C17", "C16"], claim="%s -> %s conversion is monotone non-decreasing on its whole domain (NaN excluded)" % (s, d))
      for n, s, d in [("m1_mono_u8_u16", "u8", "u16"), ("m1_mono_u8_i32", "u8", "i32"), ("m1_mono_u8_f32", "u8", "f32"),
                      ("m1_mono_u16_u8", "u16", "u8"), ("m1_mono_u16_i32", "u16", "i32"), ("m1_mono_u16_f32", "u16", "f32"),
                      ("m1_mono_i32_u8", "i32", "u8"), ("m1_mono_i32_u16", "i32", "u16"), ("m1_mono_i32_f32", "i32", "f32"),
                      ("m1_mono_f32_u8", "f32", "u8"), ("m1_mono_f32_u16", "f32", "u16"), ("m1_mono_f32_i32", "f32", "i32")]]
HS += [
    dict(name="m1_endpoints", kind="complete", timeout=300, props=["C17", "C16"], claim="min -> min and max -> max for every conversion pair (i32 range [0,MAX] vs unsigned, [MIN,MAX] vs f32)"),
    dict(name="m1_endpoints_unsigned_to_i32_max", kind="complete", timeout=300, props=["C17"], claim="u8/u16 -> i32 maps the maximum to i32::MAX (literal reading of C17)"),
    dict(name="m1_roundtrip_widening", kind="complete", timeout=600, props=["C17", "C16"], claim="widening then narrowing returns the original value for all 256 / 65536 values, 5 type pairs"),
    dict(name="m1_float_saturates", kind="complete", covers=2, timeout=600, props=["C17"], claim="f32 input (NaN, +-inf, out of range) saturates, never wraps or panics; i32 -> f32 stays in [-1,1]"),
]

UNIT = dict(
    id="M1",
    title="IntoPixelComponent: endpoints, monotonicity, saturation, lossless widening for all 12 conversions",
    kani=dict(
        functions=[dict(file="src/change_components_type.rs", fn="change_type_of_pixel_components_typed")] + [dict(file=F, fn="into_component", within=r"impl IntoPixelComponent<%s> for %s" % (d, s))
                   for s, d in [("u8", "u16"), ("u8", "i32"), ("u8", "f32"), ("u16", "u8"), ("u16", "i32"), ("u16", "f32"),
                                ("i32", "u8"), ("i32", "u16"), ("i32", "f32"), ("f32", "u8"), ("f32", "u16"), ("f32", "i32")]],
        modules=[dict(file=F, name="fv_m1", code=CODE), dict(file="src/change_components_type.rs", name="fv_m2", code=M2_CODE)],
        harnesses=HS + [dict(name=n, kind="bounded", timeout=600, props=["C17", "C05"], bound="src 2x2 U8x2 (all contents), dst U16x2 of the stated size with one spare pixel", claim=c) for n, c in [
            ("m2_same_size", "every destination component is into_component of the source component; spare pixel untouched"),
            ("m2_width_differs", "different width (same height) is rejected, destination untouched"),
            ("m2_height_differs", "different height (same width) is rejected, destination untouched"),
            ("m2_both_differ", "different size is rejected, destination untouched"),
            ("m2_zero_height", "a zero-height destination of the same width is rejected, destination untouched")]],
    ),
)
