"""W — weights of the real precompute_coefficients vs an oracle written from the property statement (C01), and the
partition-of-unity premise of the C10/C18 lemmas on the real quantised taps.  Concrete 1-D geometries (CBMC evaluates the
float arithmetic exactly); polynomial kernels only: sin/cos/exp have no model in CBMC (N1).

Oracle (statement of C01): centre c = in0 + (x + 0.5) * scale, scale = (in1 - in0) / out; kernel argument of source pixel i:
t = (i + 0.5 - c) / fs with fs = max(scale, 1) (Convolution) or 1 (Interpolation); weight = K(t) / sum_j K(t_j).
"""

F = "src/convolution/mod.rs"
FF = "src/convolution/filters.rs"

GEOS = [("3to2", 3, "0.0", "3.0", 2), ("2to3", 2, "0.0", "2.0", 3), ("crop4to2", 4, "0.5", "3.5", 2),
        ("5to2", 5, "0.0", "5.0", 2), ("sub3to4", 3, "1.25", "2.75", 4), ("1to3", 1, "0.0", "1.0", 3),
        ("7to3", 7, "0.0", "7.0", 3), ("crop6to5", 6, "0.3", "5.9", 5), ("8to2", 8, "0.0", "8.0", 2), ("edge5to3", 5, "2.0", "5.0", 3)]
GEOS_T = [("16to5", 16, "0.0", "16.0", 5), ("crop9to13", 9, "1.7", "8.2", 13), ("20to3", 20, "0.0", "20.0", 3), ("2to9", 2, "0.0", "2.0", 9),
          ("tail12to7", 12, "4.25", "12.0", 7), ("head11to4", 11, "0.0", "6.5", 4)]
FILTERS = [("box", "FilterType::Box", "k_box", "0.5"), ("bilinear", "FilterType::Bilinear", "k_bilinear", "1.0"),
           ("catmullrom", "FilterType::CatmullRom", "k_catmull", "2.0"), ("mitchell", "FilterType::Mitchell", "k_mitchell", "2.0")]

CODE = """
    use crate::convolution::optimisations::{Normalizer16, Normalizer32};

    // documented kernels, written from the literature (not from filters.rs)
    fn k_box(t: f64) -> f64 { if t > -0.5 && t <= 0.5 { 1.0 } else { 0.0 } }
    fn k_bilinear(t: f64) -> f64 { let x = t.abs(); if x < 1.0 { 1.0 - x } else { 0.0 } }
    fn k_catmull(t: f64) -> f64 {
        let x = t.abs();
        if x < 1.0 { 1.5 * x * x * x - 2.5 * x * x + 1.0 } else if x < 2.0 { -0.5 * x * x * x + 2.5 * x * x - 4.0 * x + 2.0 } else { 0.0 }
    }
    fn k_mitchell(t: f64) -> f64 {
        let x = t.abs();
        if x < 1.0 { (7.0 * x * x * x - 12.0 * x * x + 16.0 / 3.0) / 6.0 }
        else if x < 2.0 { (-7.0 / 3.0 * x * x * x + 12.0 * x * x - 20.0 * x + 32.0 / 3.0) / 6.0 } else { 0.0 }
    }

    fn near_discontinuity(is_box: bool, t: f64) -> bool { is_box && ((t - 0.5).abs() < 1e-9 || (t + 0.5).abs() < 1e-9) }

    fn weights_match(in_size: u32, in0: f64, in1: f64, out_size: u32, ft: FilterType, k: fn(f64) -> f64, support: f64, adaptive: bool, is_box: bool) {
        let (f, s) = get_filter_func(ft);
        assert!(s == support);                                       // documented support
        let c = precompute_coefficients(in_size, in0, in1, out_size, f, s, adaptive);
        assert!(c.bounds.len() == out_size as usize && c.values.len() == c.window_size * out_size as usize);
        let scale = (in1 - in0) / out_size as f64;
        let fs = if adaptive && scale > 1.0 { scale } else { 1.0 };
        let mut x = 0usize;
        while x < out_size as usize {
            let centre = in0 + (x as f64 + 0.5) * scale;
            let b = c.bounds[x];
            assert!(b.start as u64 + b.size as u64 <= in_size as u64 && b.size as usize <= c.window_size);
            let mut total = 0.0;
            let mut on_edge = false;
            let mut i = 0u32;
            while i < in_size { let t = (i as f64 + 0.5 - centre) / fs; total += k(t); if near_discontinuity(is_box, t) { on_edge = true; } i += 1; }
            assert!(total > 0.0);
            let mut sum_w = 0.0;
            let mut i = 0u32;
            while i < in_size {
                let ideal = k((i as f64 + 0.5 - centre) / fs) / total;
                let got = if i >= b.start && i < b.start + b.size { c.values[x * c.window_size + (i - b.start) as usize] } else { 0.0 };
                sum_w += got;
                if !on_edge { assert!((got - ideal).abs() <= 1e-12); }
                i += 1;
            }
            assert!((sum_w - 1.0).abs() <= 1e-12);                   // weights normalised to sum 1
            x += 1;
        }
    }

    // partition-of-unity premise of the C10 / C18 lemmas on the real quantised taps (8 bit)
    fn premise16(in_size: u32, in0: f64, in1: f64, out_size: u32, ft: FilterType, adaptive: bool) {
        let (f, s) = get_filter_func(ft);
        let c = precompute_coefficients(in_size, in0, in1, out_size, f, s, adaptive);
        let n16 = Normalizer16::new(c);
        let p = n16.precision();
        assert!(p >= 12 && p <= 21);
        for ch in n16.chunks() {
            let e: i64 = ch.values().iter().map(|&k| k as i64).sum::<i64>() - (1i64 << p);
            assert!(e.abs() * 255 < (1i64 << (p - 1)));
        }
    }

    // C18 premise: the kernels documented as non-negative really are, for every finite and non-finite argument
    #[kani::proof]
    fn w_box_bilinear_nonnegative() {
        let t: f64 = kani::any();
        let (fb, _) = get_filter_func(FilterType::Box);
        let (fl, _) = get_filter_func(FilterType::Bilinear);
        assert!(fb(t) >= 0.0 && fb(t) <= 1.0);
        if !t.is_nan() { assert!(fl(t) >= 0.0 && fl(t) <= 1.0); }
        // zero outside the documented support
        if t.abs() > 0.5 { assert!(fb(t) == 0.0); }
        if t.abs() >= 1.0 { assert!(fl(t) == 0.0); }
    }
"""

hs = [dict(name="w_box_bilinear_nonnegative", kind="complete", timeout=300, props=["C18"],
           claim="box_filter and bilinear_filter are non-negative, <= 1 and vanish outside their documented support for every f64")]
for tier, geos in (("quick", GEOS), ("thorough", GEOS_T)):
    for gname, in_size, in0, in1, out in geos:
        for fname, ft, kf, sup in FILTERS:
            nm = "w_%s_%s" % (fname, gname)
            CODE += """
    #[kani::proof]
    #[kani::unwind(%d)]
    fn %s() {
        weights_match(%d, %s, %s, %d, %s, %s, %s, %s, %s);
    }
""" % (max(in_size, out) + 7, nm, in_size, in0, in1, out, ft, kf, sup, "true" if in_size > out else "false", "true" if fname == "box" else "false")
            hs.append(dict(name=nm, kind="bounded", timeout=1200, tier=tier, props=["C01"],
                           bound="1-D geometry in_size=%d, crop [%s, %s), out_size=%d, filter %s, %s" % (in_size, in0, in1, out, fname, "adaptive kernel size (Convolution)" if in_size > out else "fixed kernel size (Interpolation; identical to Convolution when upscaling)"),
                           claim="every weight of every window equals the ideal normalised kernel weight within 1e-12, windows inside the line, sum 1"))

for fname, ft, kf, sup in FILTERS:
    CODE += """
    #[kani::proof]
    #[kani::unwind(25)]
    fn w_premise16_%s() { premise16(3, 0.0, 3.0, 2, %s, true); }
""" % (fname, ft)
    hs.append(dict(name="w_premise16_%s" % fname, kind="bounded", timeout=1500, props=["C10", "C18", "C01"],
                   bound="geometry 3 -> 2, filter %s, real precompute_coefficients + real Normalizer16::new" % fname,
                   claim="premise of the C10 / C18 lemmas on the real taps: precision in 12..=21 and |sum k - 2^p| * 255 < 2^(p-1) for every window"))

UNIT = dict(
    id="W",
    title="weights vs oracle on concrete geometries (polynomial filters) + partition premise of the real quantised taps + kernel sign",
    assumptions=["bounded: enumerated concrete geometries; Lanczos3 / Hamming / Gaussian are NOT covered (sin, cos, exp have no model in CBMC) - "
                 "they share all code with the four polynomial filters except their fn(f64)->f64 and their entry in get_filter_func",
                 "tolerance 1e-12 absolute on weights and on the sum"],
    kani=dict(
        functions=[dict(file=F, fn="precompute_coefficients"), dict(file=FF, fn="get_filter_func"), dict(file=FF, fn="box_filter"),
                   dict(file=FF, fn="bilinear_filter"), dict(file=FF, fn="catmul_filter"), dict(file=FF, fn="mitchell_filter")],
        modules=[dict(file=F, name="fv_w", code=CODE)],
        harnesses=hs,
    ),
)
