"""P — pipeline obligations on Resizer::resize_typed and friends (Form M, DESIGN 2.7).

`precompute_coefficients` and `Normalizer16::new` are replaced (kani::stub) by
"any value satisfying the callee's contract" (K6: WinInv; K4: chunk shape copied from the
bounds, arbitrary integer taps).  The caller's proof then holds for EVERY weight table
satisfying the contract, i.e. for every filter.  The contracts themselves are the
obligations of units K6 / K4.
"""
from common import SUPPORT_MODULE

FR = "src/resizer.rs"
FM = "src/mul_div.rs"
FC = "src/convolution/mod.rs"
FO = "src/convolution/optimisations.rs"

MD = dict(file=FM, name="fv_md", vis="pub(crate) ", code="""
    pub(crate) fn fv_muldiv_none() -> MulDiv { MulDiv { cpu_extensions: CpuExtensions::None } }
""")

STUBS = dict(file=FC, name="fv_formm", vis="pub(crate) ", code="""
    /// Contract stand-in for precompute_coefficients (unit K6): any table satisfying WinInv w.r.t. (in_size, out_size),
    /// windows of 1..=2 taps (bounded instance).  Nothing is assumed about the order of the window starts.
    pub(crate) fn fv_stub_precompute_coefficients(
        in_size: u32, in0: f64, in1: f64, out_size: u32, _filter: fn(f64) -> f64, _support: f64, _adaptive: bool,
    ) -> Coefficients {
        if in_size == 0 || out_size == 0 || !(in1 > in0) {
            return Coefficients::default();
        }
        let window_size: usize = kani::any();
        kani::assume(window_size >= 1 && window_size <= 2);
        let mut bounds = Vec::with_capacity(out_size as usize);
        let mut values = Vec::with_capacity(window_size * out_size as usize);
        for _ in 0..out_size {
            let (start, size): (u32, u32) = (kani::any(), kani::any());
            kani::assume(size >= 1 && size as usize <= window_size && start as u64 + size as u64 <= in_size as u64);
            bounds.push(Bound { start, size });
            for _ in 0..window_size {
                let w: f64 = kani::any();
                kani::assume(w.is_finite());
                values.push(w);
            }
        }
        Coefficients { values, window_size, bounds }
    }

    /// ghost state: which (in_size, out_size) tables were requested, in order
    pub(crate) static mut FV_TABLE_CALLS: [(u32, u32); 4] = [(0, 0); 4];
    pub(crate) static mut FV_TABLE_N: usize = 0;
    pub(crate) static mut FV_TABLE_ADAPTIVE: [bool; 4] = [false; 4];

    /// records the request and returns the simplest table satisfying WinInv (one tap per window at position 0):
    /// the planning obligations only observe WHICH tables are requested, the kernels just have to run
    pub(crate) fn fv_stub_precompute_coefficients_rec(
        in_size: u32, _in0: f64, _in1: f64, out_size: u32, _f: fn(f64) -> f64, _s: f64, _a: bool,
    ) -> Coefficients {
        unsafe {
            if FV_TABLE_N < 4 { FV_TABLE_CALLS[FV_TABLE_N] = (in_size, out_size); FV_TABLE_ADAPTIVE[FV_TABLE_N] = _a; }
            FV_TABLE_N += 1;
        }
        let mut bounds = Vec::with_capacity(out_size as usize);
        let mut values = Vec::with_capacity(out_size as usize);
        for _ in 0..out_size { bounds.push(Bound { start: 0, size: 1 }); values.push(1.0); }
        Coefficients { values, window_size: 1, bounds }
    }

    /// the same, with the additional facts K6 establishes for the real code on built-in (tail-zero) filters:
    /// window starts and ends are non-decreasing
    pub(crate) fn fv_stub_precompute_coefficients_ordered(
        in_size: u32, in0: f64, in1: f64, out_size: u32, f: fn(f64) -> f64, s: f64, a: bool,
    ) -> Coefficients {
        let c = fv_stub_precompute_coefficients(in_size, in0, in1, out_size, f, s, a);
        let mut i = 1;
        while i < c.bounds.len() {
            kani::assume(c.bounds[i].start >= c.bounds[i - 1].start);
            kani::assume(c.bounds[i].start + c.bounds[i].size >= c.bounds[i - 1].start + c.bounds[i - 1].size);
            i += 1;
        }
        c
    }
""")

NSTUB = dict(file=FO, name="fv_nstub", vis="pub(crate) ", code="""
    /// concrete stand-in used by the planning harnesses: identity taps (1.0 at precision 14)
    pub(crate) fn fv_stub_normalizer16_new_identity(coefficients: Coefficients) -> Normalizer16 {
        let mut chunks = Vec::with_capacity(coefficients.bounds.len());
        for b in coefficients.bounds.iter() {
            chunks.push(CoefficientsI16Chunk { start: b.start, values: vec![16384i16] });
        }
        Normalizer16 { precision: 14, chunks }
    }

    /// Contract stand-in for Normalizer16::new (unit K4): chunk starts / lengths copied from the bounds,
    /// arbitrary i16 taps, precision in the panic-free range.
    pub(crate) fn fv_stub_normalizer16_new(coefficients: Coefficients) -> Normalizer16 {
        let precision: u8 = kani::any();
        kani::assume(precision >= 12 && precision <= 21);
        let mut chunks = Vec::with_capacity(coefficients.bounds.len());
        for b in coefficients.bounds.iter() {
            let mut values = Vec::with_capacity(2);
            let mut i = 0;
            while i < b.size { values.push(kani::any::<i16>()); i += 1; }
            chunks.push(CoefficientsI16Chunk { start: b.start, values });
        }
        Normalizer16 { precision, chunks }
    }
""")

CODE = """
    use crate::images::{TypedImage, TypedImageRef, TypedCroppedImageMut};
    use crate::pixels::*;

    pub(crate) fn fv_resizer(a: Vec<u8>, c: Vec<u8>, s: Vec<u8>) -> Resizer {
        Resizer { cpu_extensions: CpuExtensions::None, mul_div: crate::mul_div::fv_md::fv_muldiv_none(),
                  alpha_buffer: a, convolution_buffer: c, super_sampling_buffer: s }
    }

    fn any_alg() -> ResizeAlg {
        let k: u8 = kani::any();
        let f = match kani::any::<u8>() { 0 => FilterType::Box, 1 => FilterType::Bilinear, 2 => FilterType::Hamming,
            3 => FilterType::CatmullRom, 4 => FilterType::Mitchell, 5 => FilterType::Gaussian, _ => FilterType::Lanczos3 };
        match k { 0 => ResizeAlg::Nearest, 1 => ResizeAlg::Convolution(f), 2 => ResizeAlg::Interpolation(f),
                  _ => ResizeAlg::SuperSampling(f, kani::any()) }
    }

    // ---------------------------------------------------------------- G9 / C12: same size => exact copy
    fn same_size_copy(w: u32, h: u32, l: u32, t: u32) {
        // crop origin concrete (a symbolic origin keeps the copy test symbolic and drags every algorithm into the formula);
        // contents, algorithm, filter, multiplicity and the alpha flag are symbolic
        let sp: [u16; 9] = kani::any();
        let src: [U16x2; 9] = [U16x2::new([sp[0], !sp[0]]), U16x2::new([sp[1], !sp[1]]), U16x2::new([sp[2], !sp[2]]),
                               U16x2::new([sp[3], !sp[3]]), U16x2::new([sp[4], !sp[4]]), U16x2::new([sp[5], !sp[5]]),
                               U16x2::new([sp[6], !sp[6]]), U16x2::new([sp[7], !sp[7]]), U16x2::new([sp[8], !sp[8]])];
        let mut dst = [U16x2::new([7, 7]); 10];
        let opts = ResizeOptions::new().resize_alg(any_alg()).crop(l as f64, t as f64, w as f64, h as f64).use_alpha(kani::any());
        let mut r = fv_resizer(Vec::new(), Vec::new(), Vec::new());
        {
            let s = TypedImageRef::new(3, 3, &src).unwrap();
            let mut d = TypedImage::from_pixels_slice(w, h, &mut dst).unwrap();
            assert!(r.resize_typed(&s, &mut d, &opts).is_ok());
        }
        let mut y = 0;
        while y < h { let mut x = 0; while x < w {
            assert!(dst[(y * w + x) as usize].0 == src[((t + y) * 3 + l + x) as usize].0);
            x += 1; } y += 1; }
        assert!(dst[(w * h) as usize].0 == [7, 7]);         // spare pixel untouched
        assert!(r.size_of_internal_buffers() == 0);        // no scratch buffer was needed: nothing was resampled
    }
    #[kani::proof] #[kani::unwind(7)] fn c12_copy_1x1() { same_size_copy(1, 1, 2, 1); same_size_copy(1, 1, 0, 2) }
    #[kani::proof] #[kani::unwind(7)] fn c12_copy_2x2() { same_size_copy(2, 2, 1, 0); same_size_copy(2, 2, 0, 1) }
    #[kani::proof] #[kani::unwind(7)] fn c12_copy_3x2() { same_size_copy(3, 2, 0, 1) }
    #[kani::proof] #[kani::unwind(7)] fn c12_copy_1x3() { same_size_copy(1, 3, 2, 0) }
    #[kani::proof] #[kani::unwind(7)] fn c12_copy_3x3() { same_size_copy(3, 3, 0, 0) }

    // copy_image's own contract: Ok <=> integral crop with dst dims == crop dims; on Err dst untouched
    #[kani::proof]
    #[kani::unwind(7)]
    fn g9_copy_image_contract() {
        let sp: [u8; 6] = kani::any();
        let src: [U8; 6] = [U8::new(sp[0]), U8::new(sp[1]), U8::new(sp[2]), U8::new(sp[3]), U8::new(sp[4]), U8::new(sp[5])];
        let mut dst = [U8::new(9); 2];
        let b = CropBox { left: kani::any(), top: kani::any(), width: kani::any(), height: kani::any() };
        let s = TypedImageRef::new(3, 2, &src).unwrap();
        let cropped = CroppedSrcImageView::crop(&s, b);
        kani::assume(cropped.is_ok());
        let cropped = cropped.unwrap();
        let ok;
        {
            let mut d = TypedImage::from_pixels_slice(2, 1, &mut dst).unwrap();
            ok = copy_image(&cropped, &mut d).is_ok();
        }
        let integral = b.left == b.left.round() && b.top == b.top.round() && b.width == 2.0 && b.height == 1.0;
        kani::cover!(ok);
        assert!(ok == integral);
        if ok {
            let (l, t) = (b.left as usize, b.top as usize);
            assert!(dst[0].0 == sp[t * 3 + l] && dst[1].0 == sp[t * 3 + l + 1]);
        } else {
            assert!(dst[0].0 == 9 && dst[1].0 == 9);
        }
    }

    // ---------------------------------------------------------------- G8 / C09: scratch image from a reused buffer
    fn temp_image<P: PixelTrait>(w: u32, h: u32) {
        // incoming buffer: any length 0..=12 (below, at and above the required size), spare capacity, arbitrary content
        let len: usize = kani::any();
        kani::assume(len <= 12);
        let mut buffer: Vec<u8> = Vec::with_capacity(16);
        let mut i = 0;
        while i < 12 { if i < len { buffer.push(kani::any()); } i += 1; }
        let old_len = buffer.len();
        {
            let img = get_temp_image_from_buffer::<P>(&mut buffer, w, h);
            assert!(img.width() == w && img.height() == h);
            let px = img.pixels();
            assert!(px.len() == (w * h) as usize);
            assert!(px.as_ptr() as usize % core::mem::align_of::<P>() == 0);
        }
        assert!(buffer.len() >= old_len);
        assert!(buffer.len() >= (w * h) as usize * P::size());
    }
    #[kani::proof] #[kani::unwind(16)] fn g8_temp_image_u8x3() { temp_image::<U8x3>(2, 1) }
    #[kani::proof] #[kani::unwind(16)] fn g8_temp_image_u16x2() { temp_image::<U16x2>(1, 2) }
    #[kani::proof] #[kani::unwind(20)] fn g8_temp_image_f32x2() { temp_image::<F32x2>(1, 1) }
    #[kani::proof] #[kani::unwind(16)] fn g8_temp_image_zero() { temp_image::<U16x4>(0, 3) }

    // ---------------------------------------------------------------- C11 / C05: whole resample_nearest
    #[kani::proof]
    #[kani::unwind(7)]
    fn c11_nearest_whole_3x2_to_2x2() {
        let sp: [u8; 6] = kani::any();
        let src: [U8x2; 6] = [U8x2::new([sp[0], 0u8]), U8x2::new([sp[1], 1u8]), U8x2::new([sp[2], 2u8]), U8x2::new([sp[3], 3u8]), U8x2::new([sp[4], 4u8]), U8x2::new([sp[5], 5u8])];   // second lane = pixel index
        let mut parent = [U8x2::new([200, 200]); 16];
        let (l, t, w, h): (u8, u8, u8, u8) = (kani::any(), kani::any(), kani::any(), kani::any());
        kani::assume(w >= 1 && h >= 1 && l as u32 + w as u32 <= 3 && t as u32 + h as u32 <= 2);
        // the 2x2 crop takes the copy path (covered by the c12_copy harnesses): its memcpy with a symbolic source offset produced a
        // counterexample in CBMC that does NOT replay natively (spurious), so that case is excluded here
        kani::assume(!(w == 2 && h == 2));
        let opts = ResizeOptions::new().resize_alg(ResizeAlg::Nearest).crop(l as f64, t as f64, w as f64, h as f64);
        let mut r = fv_resizer(Vec::new(), Vec::new(), Vec::new());
        {
            let s = TypedImageRef::new(3, 2, &src).unwrap();
            let mut p = TypedImage::from_pixels_slice(4, 4, &mut parent).unwrap();
            let mut d = TypedCroppedImageMut::from_ref(&mut p, 1, 1, 2, 2).unwrap();
            assert!(r.resize_typed(&s, &mut d, &opts).is_ok());
        }
        let mut y = 0u32;
        while y < 4 { let mut x = 0u32; while x < 4 {
            let px = parent[(y * 4 + x) as usize].0;
            if x >= 1 && x < 3 && y >= 1 && y < 3 {
                // centre of destination pixel in source coordinates: l + (2dx+1) w / 4 ; floor
                let (dx, dy) = (x - 1, y - 1);
                let sx = l as u32 + ((2 * dx + 1) * w as u32) / 4;
                let sy = t as u32 + ((2 * dy + 1) * h as u32) / 4;
                let bx = ((2 * dx + 1) * w as u32) % 4 == 0;   // centre on a pixel edge: either neighbour
                let by = ((2 * dy + 1) * h as u32) % 4 == 0;
                let idx = px[1] as u32;
                let (gx, gy) = (idx % 3, idx / 3);
                assert!(gx == sx || (bx && gx + 1 == sx));
                assert!(gy == sy || (by && gy + 1 == sy));
                assert!(px[0] == sp[idx as usize]);              // bit-exact copy, no alpha processing
            } else {
                assert!(px == [200, 200]);                       // surroundings of the view untouched
            }
            x += 1; } y += 1; }
    }
"""

FORMM = """
    // ---------------------------------------------------------------- Form M: do_convolution with contract stubs
    fn formm_u8(sw: u32, sh: u32, dw: u32, dh: u32, alg_conv: bool) {
        let sp: [u8; 9] = kani::any();
        let src: [U8; 9] = [U8::new(sp[0]), U8::new(sp[1]), U8::new(sp[2]), U8::new(sp[3]), U8::new(sp[4]), U8::new(sp[5]), U8::new(sp[6]), U8::new(sp[7]), U8::new(sp[8])];
        let mut parent = [U8::new(77); 16];
        let stale: [u8; 4] = kani::any();
        // stale content of the destination rectangle
        parent[5] = U8::new(stale[0]); parent[6] = U8::new(stale[1]); parent[9] = U8::new(stale[2]); parent[10] = U8::new(stale[3]);
        let filter = FilterType::Bilinear;
        let alg = if alg_conv { ResizeAlg::Convolution(filter) } else { ResizeAlg::Interpolation(filter) };
        let opts = ResizeOptions::new().resize_alg(alg);
        let scratch: [u8; 8] = kani::any();
        let mut r = fv_resizer(Vec::new(), scratch.to_vec(), Vec::new());
        {
            let s = TypedImageRef::new(sw, sh, &src[..(sw * sh) as usize]).unwrap();
            let mut p = TypedImage::from_pixels_slice(4, 4, &mut parent).unwrap();
            let mut d = TypedCroppedImageMut::from_ref(&mut p, 1, 1, dw, dh).unwrap();
            assert!(r.resize_typed(&s, &mut d, &opts).is_ok());
        }
        if !(0 >= 1 && 0 < 1 + dw as usize && 0 >= 1 && 0 < 1 + dh as usize) { assert!(parent[0].0 == 77); }
        if !(1 >= 1 && 1 < 1 + dw as usize && 0 >= 1 && 0 < 1 + dh as usize) { assert!(parent[1].0 == 77); }
        if !(2 >= 1 && 2 < 1 + dw as usize && 0 >= 1 && 0 < 1 + dh as usize) { assert!(parent[2].0 == 77); }
        if !(3 >= 1 && 3 < 1 + dw as usize && 0 >= 1 && 0 < 1 + dh as usize) { assert!(parent[3].0 == 77); }
        if !(0 >= 1 && 0 < 1 + dw as usize && 1 >= 1 && 1 < 1 + dh as usize) { assert!(parent[4].0 == 77); }
        if !(1 >= 1 && 1 < 1 + dw as usize && 1 >= 1 && 1 < 1 + dh as usize) { assert!(parent[5].0 == stale[0]); }
        if !(2 >= 1 && 2 < 1 + dw as usize && 1 >= 1 && 1 < 1 + dh as usize) { assert!(parent[6].0 == stale[1]); }
        if !(3 >= 1 && 3 < 1 + dw as usize && 1 >= 1 && 1 < 1 + dh as usize) { assert!(parent[7].0 == 77); }
        if !(0 >= 1 && 0 < 1 + dw as usize && 2 >= 1 && 2 < 1 + dh as usize) { assert!(parent[8].0 == 77); }
        if !(1 >= 1 && 1 < 1 + dw as usize && 2 >= 1 && 2 < 1 + dh as usize) { assert!(parent[9].0 == stale[2]); }
        if !(2 >= 1 && 2 < 1 + dw as usize && 2 >= 1 && 2 < 1 + dh as usize) { assert!(parent[10].0 == stale[3]); }
        if !(3 >= 1 && 3 < 1 + dw as usize && 2 >= 1 && 2 < 1 + dh as usize) { assert!(parent[11].0 == 77); }
        if !(0 >= 1 && 0 < 1 + dw as usize && 3 >= 1 && 3 < 1 + dh as usize) { assert!(parent[12].0 == 77); }
        if !(1 >= 1 && 1 < 1 + dw as usize && 3 >= 1 && 3 < 1 + dh as usize) { assert!(parent[13].0 == 77); }
        if !(2 >= 1 && 2 < 1 + dw as usize && 3 >= 1 && 3 < 1 + dh as usize) { assert!(parent[14].0 == 77); }
        if !(3 >= 1 && 3 < 1 + dw as usize && 3 >= 1 && 3 < 1 + dh as usize) { assert!(parent[15].0 == 77); }
        assert!(src[0].0 == sp[0]);
        assert!(src[1].0 == sp[1]);
        assert!(src[2].0 == sp[2]);
        assert!(src[3].0 == sp[3]);
        assert!(src[4].0 == sp[4]);
        assert!(src[5].0 == sp[5]);
        assert!(src[6].0 == sp[6]);
        assert!(src[7].0 == sp[7]);
        assert!(src[8].0 == sp[8]);
    }

    #[kani::proof]
    #[kani::unwind(7)]
    #[kani::stub(crate::convolution::precompute_coefficients, crate::convolution::fv_formm::fv_stub_precompute_coefficients)]
    #[kani::stub(crate::convolution::optimisations::Normalizer16::new, crate::convolution::optimisations::fv_nstub::fv_stub_normalizer16_new)]
    fn formm_u8_3x3_to_2x2_any_windows() { formm_u8(3, 3, 2, 2, true) }

    #[kani::proof]
    #[kani::unwind(7)]
    #[kani::stub(crate::convolution::precompute_coefficients, crate::convolution::fv_formm::fv_stub_precompute_coefficients_ordered)]
    #[kani::stub(crate::convolution::optimisations::Normalizer16::new, crate::convolution::optimisations::fv_nstub::fv_stub_normalizer16_new)]
    fn formm_u8_3x3_to_2x2_ordered_windows() { formm_u8(3, 3, 2, 2, true) }

    #[kani::proof]
    #[kani::unwind(7)]
    #[kani::stub(crate::convolution::precompute_coefficients, crate::convolution::fv_formm::fv_stub_precompute_coefficients_ordered)]
    #[kani::stub(crate::convolution::optimisations::Normalizer16::new, crate::convolution::optimisations::fv_nstub::fv_stub_normalizer16_new)]
    fn formm_u8_3x2_to_2x2_horizontal_only() { formm_u8(3, 2, 2, 2, false) }
"""

PLAN = """
    // ---------------------------------------------------------------- K8: pass planning, observed through the requested tables
    fn plan(sw: u32, sh: u32, left: f64, cw: f64, dw: u32, dh: u32) -> (usize, (u32, u32), (u32, u32)) { plan2(sw, sh, left, 0.0, cw, sh as f64, dw, dh) }

    fn plan2(sw: u32, sh: u32, left: f64, top: f64, cw: f64, ch: f64, dw: u32, dh: u32) -> (usize, (u32, u32), (u32, u32)) {
        let sp: [u8; 9] = kani::any();
        let src: [U8; 9] = [U8::new(sp[0]), U8::new(sp[1]), U8::new(sp[2]), U8::new(sp[3]), U8::new(sp[4]), U8::new(sp[5]), U8::new(sp[6]), U8::new(sp[7]), U8::new(sp[8])];
        let mut dst = [U8::new(1); 4];
        let opts = ResizeOptions::new().resize_alg(ResizeAlg::Convolution(FilterType::Mitchell)).crop(left, top, cw, ch);
        let mut r = fv_resizer(Vec::new(), Vec::new(), Vec::new());
        let s = TypedImageRef::new(sw, sh, &src[..(sw * sh) as usize]).unwrap();
        let mut d = TypedImage::from_pixels_slice(dw, dh, &mut dst[..(dw * dh) as usize]).unwrap();
        assert!(r.resize_typed(&s, &mut d, &opts).is_ok());
        unsafe { (crate::convolution::fv_formm::FV_TABLE_N, crate::convolution::fv_formm::FV_TABLE_CALLS[0], crate::convolution::fv_formm::FV_TABLE_CALLS[1]) }
    }

    #[kani::proof]
    #[kani::unwind(7)]
    #[kani::stub(crate::convolution::precompute_coefficients, crate::convolution::fv_formm::fv_stub_precompute_coefficients_rec)]
    #[kani::stub(crate::convolution::optimisations::Normalizer16::new, crate::convolution::optimisations::fv_nstub::fv_stub_normalizer16_new_identity)]
    fn k8_plan_width_matches() {
        let (n, c0, _) = plan(2, 3, 0.0, 2.0, 2, 2);
        assert!(n == 1 && c0 == (3, 2));      // only the vertical table (rows 3 -> 2): no resampling along the matching width
    }

    #[kani::proof]
    #[kani::unwind(7)]
    #[kani::stub(crate::convolution::precompute_coefficients, crate::convolution::fv_formm::fv_stub_precompute_coefficients_rec)]
    #[kani::stub(crate::convolution::optimisations::Normalizer16::new, crate::convolution::optimisations::fv_nstub::fv_stub_normalizer16_new_identity)]
    fn k8_plan_height_matches() {
        let (n, c0, _) = plan(3, 2, 0.0, 3.0, 2, 2);
        assert!(n == 1 && c0 == (3, 2));      // only the horizontal table (columns 3 -> 2)
    }

    #[kani::proof]
    #[kani::unwind(7)]
    #[kani::stub(crate::convolution::precompute_coefficients, crate::convolution::fv_formm::fv_stub_precompute_coefficients_rec)]
    #[kani::stub(crate::convolution::optimisations::Normalizer16::new, crate::convolution::optimisations::fv_nstub::fv_stub_normalizer16_new_identity)]
    fn k8_plan_fractional_offset() {
        // width matches (crop 2 wide -> dst 2 wide) but the crop starts at a half pixel: a horizontal pass IS required
        let (n, c0, c1) = plan(3, 3, 0.5, 2.0, 2, 2);
        assert!(n == 2 && c0 == (3, 2) && c1 == (3, 2));
    }

    #[kani::proof]
    #[kani::unwind(7)]
    #[kani::stub(crate::convolution::precompute_coefficients, crate::convolution::fv_formm::fv_stub_precompute_coefficients_rec)]
    #[kani::stub(crate::convolution::optimisations::Normalizer16::new, crate::convolution::optimisations::fv_nstub::fv_stub_normalizer16_new_identity)]
    fn k8_plan_fractional_top() {
        // height matches (crop 2 high -> dst 2 high) but the crop starts at half a row: the vertical pass IS required
        let (n, c0, c1) = plan2(3, 3, 0.0, 0.5, 3.0, 2.0, 2, 2);
        assert!(n == 2 && c0 == (3, 2) && c1 == (3, 2));
    }

    #[kani::proof]
    #[kani::unwind(7)]
    #[kani::stub(crate::convolution::precompute_coefficients, crate::convolution::fv_formm::fv_stub_precompute_coefficients_rec)]
    #[kani::stub(crate::convolution::optimisations::Normalizer16::new, crate::convolution::optimisations::fv_nstub::fv_stub_normalizer16_new_identity)]
    fn k8_plan_both_passes() {
        let (n, c0, c1) = plan(3, 2, 0.0, 3.0, 2, 1);
        assert!(n == 2 && c0 == (3, 2) && c1 == (2, 1));   // horizontal table first (columns 3 -> 2), then vertical (rows 2 -> 1)
    }

    // ---------------------------------------------------------------- C07 / C09: the alpha path is really taken, with the caller's kernel mode
    #[kani::proof]
    #[kani::unwind(8)]
    #[kani::stub(crate::convolution::precompute_coefficients, crate::convolution::fv_formm::fv_stub_precompute_coefficients_rec)]
    #[kani::stub(crate::convolution::optimisations::Normalizer16::new, crate::convolution::optimisations::fv_nstub::fv_stub_normalizer16_new_identity)]
    fn c07_alpha_path_u8x2_interpolation() {
        // source 2x2 U8x2, crop (0, 0, 2, 1) that does NOT reach the bottom edge, destination 1x1: horizontal pass only.
        // With the identity stand-in tables the destination pixel is divide(premultiply(source pixel 0)).
        let sp: [u8; 8] = kani::any();
        let src: [U8x2; 4] = [U8x2::new([sp[0], sp[1]]), U8x2::new([sp[2], sp[3]]), U8x2::new([sp[4], sp[5]]), U8x2::new([sp[6], sp[7]])];
        let mut dst = [U8x2::new([9, 9]); 2];
        let opts = ResizeOptions::new().resize_alg(ResizeAlg::Interpolation(FilterType::Bilinear)).crop(0.0, 0.0, 2.0, 1.0);
        // scratch buffers pre-sized (Vec::resize is a loop that would force a large global unwinding bound) with arbitrary content
        let junk: u8 = kani::any();
        let mut r = fv_resizer(vec![junk; 12], vec![junk; 12], Vec::new());
        {
            let s = TypedImageRef::new(2, 2, &src).unwrap();
            let mut d = TypedImage::from_pixels_slice(1, 1, &mut dst).unwrap();
            assert!(r.resize_typed(&s, &mut d, &opts).is_ok());
        }
        // the kernel mode requested by the caller (Interpolation = fixed kernel) reaches the table computation on the alpha path
        unsafe {
            assert!(crate::convolution::fv_formm::FV_TABLE_N == 1);
            assert!(crate::convolution::fv_formm::FV_TABLE_ADAPTIVE[0] == false);
        }
        kani::cover!(sp[1] == 0 && sp[0] != 0);
        assert!(dst[0].0[1] == sp[1]);                                   // alpha resampled as a plain channel (identity taps)
        if sp[1] == 0 { assert!(dst[0].0[0] == 0); }                     // transparent: colour 0 whatever was stored
        if sp[1] == 255 { assert!(dst[0].0[0] == sp[0]); }               // opaque: as with alpha handling off
        assert!(dst[1].0 == [9, 9]);
    }

    #[kani::proof]
    fn c09_set_cpu_extensions_reaches_both_stages() {
        let mut r = fv_resizer(Vec::new(), Vec::new(), Vec::new());
        for ext in [CpuExtensions::Sse4_1, CpuExtensions::Avx2, CpuExtensions::None, CpuExtensions::Avx2] {
            unsafe { r.set_cpu_extensions(ext); }
            assert!(r.cpu_extensions() == ext && r.mul_div.cpu_extensions() == ext);
            let c = r.clone();
            assert!(c.cpu_extensions() == ext && c.mul_div.cpu_extensions() == ext);
        }
    }

    // ---------------------------------------------------------------- SuperSampling whose intermediate image has the destination size
    #[kani::proof]
    #[kani::unwind(7)]
    fn c12_supersampling_intermediate_has_dst_size() {
        let sp: [u8; 16] = kani::any();
        let src: [U8; 16] = [U8::new(sp[0]), U8::new(sp[1]), U8::new(sp[2]), U8::new(sp[3]), U8::new(sp[4]), U8::new(sp[5]), U8::new(sp[6]), U8::new(sp[7]), U8::new(sp[8]), U8::new(sp[9]), U8::new(sp[10]), U8::new(sp[11]), U8::new(sp[12]), U8::new(sp[13]), U8::new(sp[14]), U8::new(sp[15])];
        let stale: u8 = kani::any();
        let mut dst = [U8::new(stale); 2];
        let opts = ResizeOptions::new().resize_alg(ResizeAlg::SuperSampling(FilterType::Bilinear, 1));
        let mut r = fv_resizer(Vec::new(), Vec::new(), Vec::new());
        {
            let s = TypedImageRef::new(4, 4, &src).unwrap();
            let mut d = TypedImage::from_pixels_slice(1, 1, &mut dst[..1]).unwrap();
            assert!(r.resize_typed(&s, &mut d, &opts).is_ok());
        }
        // factor 4 > 1.2: the nearest-neighbour intermediate image is 1x1 == destination size; the documented result is the
        // convolution of that image, i.e. the pixel itself: source pixel under the centre (2, 2)
        assert!(dst[0].0 == sp[2 * 4 + 2]);
        assert!(dst[1].0 == stale);
    }
"""

SHIFT = """
    // ---------------------------------------------------------------- K8: temp image sizing + bound shifting (statement slices of do_convolution)
    fn any_wininv_bounds(in_size: u32) -> crate::convolution::Coefficients {
        // three windows about which only WinInv is known (custom filters: nothing is known about the order of the window starts)
        let mut bounds = Vec::with_capacity(3);
        for _ in 0..3 {
            let (start, size): (u32, u32) = (kani::any(), kani::any());
            kani::assume(size <= 2 && start as u64 + size as u64 <= in_size as u64);
            bounds.push(crate::convolution::Bound { start, size });
        }
        crate::convolution::Coefficients { values: vec![0.0; 6], window_size: 2, bounds }
    }

    #[kani::proof]
    #[kani::unwind(6)]
    fn k8_shift_horizontal_bounds() {
        let in_size: u32 = kani::any();
        let c = any_wininv_bounds(in_size);
        let (temp_width, shifted) = fv_slice_shift_h(c);
        kani::cover!(temp_width > 2);
        // the shifted windows must satisfy WinInv w.r.t. the temporary image that was allocated for them
        for b in shifted.bounds.iter() { assert!(b.start as u64 + b.size as u64 <= temp_width as u64); }
    }

    #[kani::proof]
    #[kani::unwind(6)]
    fn k8_shift_vertical_bounds() {
        let in_size: u32 = kani::any();
        let c = any_wininv_bounds(in_size);
        let (temp_height, shifted) = fv_slice_shift_v(c);
        for b in shifted.bounds.iter() { assert!(b.start as u64 + b.size as u64 <= temp_height as u64); }
    }
"""

SHIFT_SLICES = [
    dict(name="fv_slice_shift_h", file=FR, fn="do_convolution", stmts_from="let x_first =", stmts_upto="let temp_width =",
         more_stmts=[(r"re:horiz_coeffs\s*\.bounds\s*\.iter_mut\(\)", ".for_each(|b| b.start -= x_first);")],
         params="mut horiz_coeffs: crate::convolution::Coefficients", ret="(u32, crate::convolution::Coefficients)", post="(temp_width, horiz_coeffs)"),
    dict(name="fv_slice_shift_v", file=FR, fn="do_convolution", stmts_from="let y_first =", stmts_upto="let temp_height =",
         more_stmts=[(r"re:vert_coeffs\s*\.bounds\s*\.iter_mut\(\)", ".for_each(|b| b.start -= y_first);")],
         params="mut vert_coeffs: crate::convolution::Coefficients", ret="(u32, crate::convolution::Coefficients)", post="(temp_height, vert_coeffs)"),
]

UNIT = dict(
    id="P",
    title="pipeline: same-size copy, copy_image contract, scratch image, whole nearest resample, Form-M frame harnesses",
    assumptions=["Form M: precompute_coefficients / Normalizer16::new replaced by contract stand-ins (kani::stub) - any WinInv table with "
                 "windows of 1..=2 taps, arbitrary i16 taps, precision 12..=21; the stand-ins are justified by units K6 and K4",
                 "bounded: sources <= 3x3, destinations <= 2x2 placed at (1,1) in a 4x4 parent"],
    kani=dict(
        functions=[dict(file=FR, fn="resize_typed"), dict(file=FR, fn="copy_image"), dict(file=FR, fn="iter_cropped_rows"),
                   dict(file=FR, fn="get_temp_image_from_buffer"), dict(file=FR, fn="resample_nearest"),
                   dict(file=FR, fn="resample_convolution"), dict(file=FR, fn="do_convolution")],
        modules=[SUPPORT_MODULE, MD, STUBS, NSTUB, dict(file=FR, name="fv_p", code=CODE + FORMM + PLAN + SHIFT, slices=SHIFT_SLICES)],
        harnesses=[
            dict(name="c12_copy_1x1", kind="bounded", timeout=900, props=["C12", "C05", "C03"], bound="src 3x3 U16x2, crop 1x1 at (2,1) and (0,2); every algorithm/filter/multiplicity, alpha on/off, all contents", claim="dst is the bit-exact crop region; spare pixel untouched; no scratch buffer allocated"),
            dict(name="c12_copy_2x2", kind="bounded", timeout=900, props=["C12", "C05", "C03"], bound="src 3x3 U16x2, crop 2x2 at (1,0) and (0,1), every algorithm", claim="bit-exact copy"),
            dict(name="c12_copy_3x2", kind="bounded", timeout=900, props=["C12"], bound="src 3x3 U16x2, crop 3x2 at (0,1), every algorithm", claim="bit-exact copy"),
            dict(name="c12_copy_1x3", kind="bounded", timeout=900, props=["C12"], bound="src 3x3 U16x2, crop 1x3 at (2,0), every algorithm", claim="bit-exact copy"),
            dict(name="c12_copy_3x3", kind="bounded", timeout=900, props=["C12"], bound="src 3x3 U16x2, whole image", claim="bit-exact copy"),
            dict(name="g9_copy_image_contract", kind="bounded", covers=1, timeout=900, props=["C12", "C05", "C03"],
                 bound="src 3x2 U8, dst 2x1, EVERY f64 crop box accepted by crop()", claim="copy_image: Ok <=> integral crop of the dst size; Ok => exact region; Err => dst untouched"),
            dict(name="g8_temp_image_u8x3", kind="bounded", timeout=900, props=["C09", "C03"], bound="buffer of any length <= 12 (capacity 16) and any content, image 2x1 U8x3", claim="scratch image has the requested size, exactly w*h pixels, aligned; buffer only grows"),
            dict(name="g8_temp_image_u16x2", kind="bounded", timeout=900, tier="thorough", props=["C09", "C03"], bound="buffer <= 12 bytes, image 1x2 U16x2", claim="same"),
            dict(name="g8_temp_image_f32x2", kind="bounded", timeout=900, props=["C09", "C03"], bound="buffer <= 12 bytes, image 1x1 F32x2 (8-byte pixel, alignment 4)", claim="same"),
            dict(name="g8_temp_image_zero", kind="bounded", timeout=900, props=["C09", "C03"], bound="buffer <= 12 bytes, image 0x3 U16x4", claim="same for an empty image"),
            dict(name="c11_nearest_whole_3x2_to_2x2", kind="bounded", timeout=1500, props=["C11", "C05", "C13", "C03"],
                 bound="src 3x2 U8x2, every integer crop, dst 2x2 cropped view at (1,1) of a 4x4 parent",
                 claim="every dst pixel is a bit-exact copy of the source pixel under its centre; no alpha processing; parent bytes outside the view untouched"),
            dict(name="k8_plan_width_matches", kind="bounded", timeout=1500, props=["C12", "C01"], bound="U8 2x3 -> 2x2, contract stand-ins for the tables", claim="exactly one table is computed (vertical, 3 -> 2): no resampling along the matching dimension"),
            dict(name="k8_plan_height_matches", kind="bounded", timeout=1500, props=["C12", "C01"], bound="U8 3x2 -> 2x2", claim="exactly one table is computed (horizontal, 3 -> 2)"),
            dict(name="k8_plan_fractional_offset", kind="bounded", timeout=1500, props=["C12", "C01"], bound="U8 3x3, crop (0.5, 0, 2, 3) -> 2x2", claim="a fractional crop origin forces the pass along that axis even when the size matches"),
            dict(name="k8_plan_fractional_top", kind="bounded", timeout=1500, props=["C12", "C01"], bound="U8 3x3, crop (0, 0.5, 3, 2) -> 2x2", claim="a fractional crop top forces the vertical pass even when the height matches"),
            dict(name="k8_plan_both_passes", kind="bounded", timeout=1500, props=["C01", "C12"], bound="U8 3x2 -> 2x1", claim="both tables are computed: horizontal from the source width, vertical from the source height"),
            dict(name="c07_alpha_path_u8x2_interpolation", kind="bounded", covers=1, timeout=2400, props=["C07"],
                 bound="U8x2 2x2, crop (0,0,2,1) -> 1x1, Interpolation, identity stand-in tables, all contents",
                 claim="the alpha path is taken: transparent source pixels give colour 0, opaque ones are unchanged, alpha is a plain channel; the "
                       "fixed-kernel mode of Interpolation reaches the table computation; spare pixel untouched"),
            dict(name="c09_set_cpu_extensions_reaches_both_stages", kind="complete", timeout=300, props=["C09", "C02"],
                 claim="set_cpu_extensions selects the same back-end for the convolution stage and the alpha stage, for every sequence of selections; clone keeps it"),
            dict(name="c12_supersampling_intermediate_has_dst_size", kind="bounded", timeout=1500, props=["C12", "C05", "C01"], bound="U8 4x4 -> 1x1, SuperSampling multiplicity 1 (intermediate image 1x1)", claim="the destination receives the intermediate pixel (nothing stale survives); spare pixel untouched"),
            dict(name="k8_shift_horizontal_bounds", kind="complete", covers=1, timeout=900, props=["C03", "C01"],
                 claim="statement slice of do_convolution (u8 path): for ANY three windows satisfying WinInv (no order assumed, any u32 in_size) the temp width and the "
                       "shifted windows are computed without overflow and every shifted window lies inside the temp image"),
            dict(name="k8_shift_vertical_bounds", kind="complete", timeout=900, props=["C03", "C01"],
                 claim="same for the vertical bounds of the non-u8 path"),
            dict(name="formm_u8_3x3_to_2x2_any_windows", kind="bounded", timeout=3600, tier="dev", props=["C03"],
                 bound="U8 3x3 -> 2x2 view in 4x4 parent, two passes, ANY WinInv tables (1..=2 taps), any taps, stale scratch buffer",
                 claim="no out-of-bounds access / overflow / panic for window tables about which only WinInv is known (custom filters); frame"),
            dict(name="formm_u8_3x3_to_2x2_ordered_windows", kind="bounded", timeout=3600, tier="dev", props=["C05", "C03", "C09"],
                 bound="same, window starts/ends non-decreasing (built-in filters)",
                 claim="frame: parent bytes outside the dst rectangle and the source are unchanged; no panic"),
            dict(name="formm_u8_3x2_to_2x2_horizontal_only", kind="bounded", timeout=2400, tier="thorough", props=["C05", "C12", "C03"],
                 bound="U8 3x2 -> 2x2 (height matches: single horizontal pass), Interpolation", claim="frame; no scratch image needed for the matching dimension"),
        ],
    ),
)
