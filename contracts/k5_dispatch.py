"""K5 — precision dispatch of the SIMD kernels (mechanical)."""

UNIT = dict(
    id="K5",
    title="constify_imm8! covers every fixed-point precision reachable in the panic-free domain",
    assumptions=["the reachable precision range 12..=21 for windows with max weight < 4 is K4's obligation (bounded)",
                 "precision 11 (max weight in [4, 8)) has no arm: a custom filter with such weights panics with unreachable!() on the SIMD "
                 "paths - outside the panic-free domain of C03, memory-safe; recorded as a note, not a finding"],
    mechanical=lambda: __import__("k5_dispatch_mech").obligations(),
)
