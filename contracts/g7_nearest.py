"""G7 — nearest-neighbour source index (columns: slice of resample_nearest;
rows: iter_rows_with_step of both implementations).

Oracle (statement of C11): column = floor(left + (x + 0.5) * crop_w / dst_w), always < W.
"""
from common import SUPPORT_MODULE

FR = "src/resizer.rs"

UNIT = dict(
    id="G7",
    title="nearest neighbour: tabulated source column is inside the row and is the pixel under the destination centre",
    assumptions=["the column computation is verified on a slice: the statements from `let x_scale` up to the x_in_tab table and the "
                 "closure body of its .map(), lifted verbatim; std's (0..n).map(f).collect() applies f once per index, in order"],
    kani=dict(
        functions=[dict(file=FR, fn="resample_nearest")],
        modules=[SUPPORT_MODULE, dict(file=FR, name="fv_g7", slices=[dict(
            name="fv_slice_x_in", file=FR, fn="resample_nearest",
            stmts_from="let x_scale = ", stmts_to="let x_in_tab", closure=".map(|x| ((x_in_start",
            params="crop_box: CropBox, dst_width: u32, dst_height: u32, src_view: &crate::fv_support::FvDims, x: u32", ret="usize"),
            dict(name="fv_slice_y_in_start<V: crate::ImageView>", file=FR, fn="resample_nearest", stmts_from="let x_scale = ", stmts_to="let src_rows =",
                 params="crop_box: CropBox, dst_width: u32, dst_height: u32, src_view: &V", ret="f64", post="y_in_start")],
            code="""
    use crate::fv_support::FvDims;

    #[kani::proof]
    fn g7_col_in_bounds() {
        let view = FvDims { w: kani::any(), h: kani::any() };
        let b = CropBox { left: kani::any(), top: kani::any(), width: kani::any(), height: kani::any() };
        let cropped = CroppedSrcImageView::crop(&view, b);
        kani::assume(cropped.is_ok());
        let (dw, dh, x): (u32, u32, u32) = (kani::any(), kani::any(), kani::any());
        kani::assume(dw > 0 && dh > 0 && x < dw && b.width > 0. && b.height > 0.);
        let idx = fv_slice_x_in(b, dw, dh, &view, x);
        kani::cover!(idx + 1 == view.w as usize);
        assert!(idx < view.w as usize);
    }

    #[kani::proof]
    fn g7_col_is_pixel_under_centre() {
        // integer-valued geometry (the common case) is decided exactly: the centre of destination
        // pixel x, in source coordinates, is left + (2x+1)*cw / (2*dw)
        let view = FvDims { w: kani::any(), h: 1 };
        let (left, cw, dw, x): (u16, u16, u16, u16) = (kani::any(), kani::any(), kani::any(), kani::any());
        kani::assume(cw > 0 && dw > 0 && x < dw && left as u32 + cw as u32 <= view.w);
        let b = CropBox { left: left as f64, top: 0., width: cw as f64, height: 1. };
        let idx = fv_slice_x_in(b, dw as u32, 1, &view, x as u32) as u64;
        let num = (2 * x as u64 + 1) * cw as u64;          // (x + 0.5) * cw = num / 2
        let den = 2 * dw as u64;
        let ideal = left as u64 + num / den;
        let on_boundary = num % den == 0;                    // centre exactly on a pixel edge: either neighbour
        kani::cover!(idx > 3);
        assert!(idx == ideal || (on_boundary && idx + 1 == ideal) || near_integer(num, den, idx, left as u64));
    }

    fn col_integer(cw: u16, dw: u16) {
        // integer crops with concrete crop width / destination width (a symbolic divisor does not finish), every left, W and x
        let view = FvDims { w: kani::any(), h: 1 };
        let (left, x): (u16, u16) = (kani::any(), kani::any());
        kani::assume(x < dw && left as u32 + cw as u32 <= view.w);
        let b = CropBox { left: left as f64, top: 0., width: cw as f64, height: 1. };
        let idx = fv_slice_x_in(b, dw as u32, 1, &view, x as u32) as u64;
        let num = (2 * x as u64 + 1) * cw as u64;
        let den = 2 * dw as u64;
        let ideal = left as u64 + num / den;
        kani::cover!(idx > 3 && x + 1 == dw);
        assert!(idx == ideal || (num % den == 0 && idx + 1 == ideal));
    }
    #[kani::proof] fn g7_col_integer_crop_7_to_3() { col_integer(7, 3) }
    #[kani::proof] fn g7_col_integer_crop_3_to_7() { col_integer(3, 7) }
    #[kani::proof] fn g7_col_integer_crop_255_to_16() { col_integer(255, 16) }
    #[kani::proof] fn g7_col_integer_crop_1000_to_37() { col_integer(1000, 37) }

    fn col_fractional(c4: u16, dw: u16) {
        // quarter-pixel crops: left = l4/4 (symbolic), width = c4/4 and dst width concrete (a symbolic divisor does not finish);
        // the ideal column is an exact integer quotient
        let view = FvDims { w: kani::any(), h: 1 };
        let (l4, x): (u16, u16) = (kani::any(), kani::any());
        kani::assume(view.w <= 64 && x < dw && l4 as u32 + c4 as u32 <= 4 * view.w);
        let b = CropBox { left: l4 as f64 / 4.0, top: 0., width: c4 as f64 / 4.0, height: 1. };
        let idx = fv_slice_x_in(b, dw as u32, 1, &view, x as u32) as u64;
        // centre = l4/4 + (2x+1) c4 / (8 dw) = (2 dw l4 + (2x+1) c4) / (8 dw)
        let num = 2 * dw as u64 * l4 as u64 + (2 * x as u64 + 1) * c4 as u64;
        let den = 8 * dw as u64;
        let (q, r) = (num / den, num % den);
        kani::cover!(r != 0 && l4 % 4 != 0 && (l4 + c4) % 4 != 0 && x + 1 == dw);
        // exactly on a pixel edge: either neighbour (clamped to the last pixel)
        assert!(idx == q || (r == 0 && idx + 1 == q) || (q == view.w as u64 && idx + 1 == q));
    }
    #[kani::proof] fn g7_col_fractional_crop_10q_to_5() { col_fractional(10, 5) }
    #[kani::proof] fn g7_col_fractional_crop_7q_to_3() { col_fractional(7, 3) }
    #[kani::proof] fn g7_col_fractional_crop_3q_to_4() { col_fractional(3, 4) }
    #[kani::proof] fn g7_col_fractional_crop_26q_to_2() { col_fractional(26, 2) }

    fn rows_check<V: crate::ImageView<Pixel = crate::pixels::U8>>(view: &V, base: *const crate::pixels::U8, ch: f64, dh: u32) {
        // source 1x8; crop height and destination height concrete, crop top EVERY f64 accepted by crop()
        let top: f64 = kani::any();
        kani::assume(top >= 0. && top < 8. && top + ch <= 8.);
        // the statements of resample_nearest that feed the row iterator (verbatim slice)
        let y_scale = ch / dh as f64;
        let y_in_start = fv_slice_y_in_start(CropBox { left: 0., top, width: 1., height: ch }, 1, dh, view);
        let mut n: u32 = 0;
        for row in view.iter_rows_with_step(y_in_start, y_scale, dh) {
            let got = unsafe { row.as_ptr().offset_from(base) } as f64;       // width 1: offset == row index
            let ideal = top + (n as f64 + 0.5) * y_scale;
            let (lo, hi) = ((ideal - 1e-9).floor(), (ideal + 1e-9).floor());
            assert!(got == lo || got == hi || (got == 7.0 && hi >= 7.0));
            n += 1;
        }
        kani::cover!(n == dh);
        assert!(n == dh);
    }

    fn rows_typed_ref(ch: f64, dh: u32) {
        let buf = [crate::pixels::U8::new(0); 8];
        let v = crate::images::TypedImageRef::new(1, 8, &buf).unwrap();
        rows_check(&v, buf.as_ptr(), ch, dh);
    }
    fn rows_default(ch: f64, dh: u32) {
        let mut buf = [crate::pixels::U8::new(0); 8];
        let base = buf.as_ptr();
        let v = crate::images::TypedImage::from_pixels_slice(1, 8, &mut buf).unwrap();
        rows_check(&v, base, ch, dh);
    }
    fn rows_default_small(ch: f64, dh: u32) {
        // the default implementation walks a row iterator: the 8-row version exhausts memory, 4 rows are used instead
        let mut buf = [crate::pixels::U8::new(0); 4];
        let base = buf.as_ptr();
        let v = crate::images::TypedImage::from_pixels_slice(1, 4, &mut buf).unwrap();
        let top: f64 = kani::any();
        kani::assume(top >= 0. && top < 4. && top + ch <= 4.);
        let y_scale = ch / dh as f64;
        let y_in_start = fv_slice_y_in_start(CropBox { left: 0., top, width: 1., height: ch }, 1, dh, &v);
        let mut n: u32 = 0;
        for row in v.iter_rows_with_step(y_in_start, y_scale, dh) {
            let got = unsafe { row.as_ptr().offset_from(base) } as f64;
            let ideal = top + (n as f64 + 0.5) * y_scale;
            let (lo, hi) = ((ideal - 1e-9).floor(), (ideal + 1e-9).floor());
            assert!(got == lo || got == hi || (got == 3.0 && hi >= 3.0));
            n += 1;
        }
        kani::cover!(n == dh);
        assert!(n == dh);
    }
    #[kani::proof] #[kani::unwind(10)] fn g7_rows_typed_ref_6_to_3() { rows_typed_ref(6.0, 3) }
    #[kani::proof] #[kani::unwind(10)] fn g7_rows_typed_ref_subulp_to_1() { rows_typed_ref(8.881784197001252e-16, 1) }
    #[kani::proof] #[kani::unwind(10)] fn g7_rows_typed_ref_3_to_2() { rows_typed_ref(3.0, 2) }
    #[kani::proof] #[kani::unwind(6)] fn g7_rows_default_impl_2_to_2() { rows_default_small(2.0, 2) }
    #[kani::proof] #[kani::unwind(6)] fn g7_rows_default_impl_3_to_2() { rows_default_small(3.0, 2) }

    // the ideal coordinate num/den is within 2^-30 of the integer boundary below/above: float noise may pick either side
    fn near_integer(num: u64, den: u64, idx: u64, left: u64) -> bool {
        let q = num / den;
        let r = num % den;
        // distance to the next integer above, scaled by den: den - r ; to the one below: r
        let tol = den >> 30;
        (r <= tol && idx + 1 == left + q) || (den - r <= tol && idx == left + q + 1)
    }
""")],
        harnesses=[
            dict(name="g7_col_fractional_crop_10q_to_5", kind="bounded", covers=1, timeout=1200,
                 bound="crop width 2.5 px, dst width 5 (concrete); source width <= 64, EVERY quarter-pixel crop origin, every x",
                 claim="column == floor(left + (x+0.5)*cw/dw) exactly, either neighbour only when the centre is exactly on a pixel edge"),
            dict(name="g7_col_fractional_crop_7q_to_3", kind="bounded", covers=1, timeout=1200,
                 bound="crop width 1.75 px, dst width 3 (concrete); source width <= 64, EVERY quarter-pixel crop origin, every x",
                 claim="column == floor(left + (x+0.5)*cw/dw) exactly, either neighbour only when the centre is exactly on a pixel edge"),
            dict(name="g7_col_fractional_crop_3q_to_4", kind="bounded", covers=1, timeout=1200,
                 bound="crop width 0.75 px, dst width 4 (concrete); source width <= 64, EVERY quarter-pixel crop origin, every x",
                 claim="column == floor(left + (x+0.5)*cw/dw) exactly, either neighbour only when the centre is exactly on a pixel edge"),
            dict(name="g7_col_fractional_crop_26q_to_2", kind="bounded", covers=1, timeout=1200,
                 bound="crop width 6.5 px, dst width 2 (concrete); source width <= 64, EVERY quarter-pixel crop origin, every x",
                 claim="column == floor(left + (x+0.5)*cw/dw) exactly, either neighbour only when the centre is exactly on a pixel edge"),
            dict(name="g7_rows_typed_ref_6_to_3", kind="bounded", covers=1, timeout=1200,
                 bound="source 1x8, crop height 6.0 -> 3 rows (concrete), EVERY f64 crop top accepted by crop(); TypedImageRef's own iter_rows_with_step",
                 claim="exactly dst_h rows are produced and row y is floor(top + (y+0.5)*ch/dh) (either neighbour within 1e-9 of a pixel edge)"),
            dict(name="g7_rows_typed_ref_3_to_2", kind="bounded", covers=1, timeout=1200,
                 bound="source 1x8, crop height 3.0 -> 2 rows (concrete), EVERY f64 crop top accepted by crop(); TypedImageRef's own iter_rows_with_step",
                 claim="exactly dst_h rows are produced and row y is floor(top + (y+0.5)*ch/dh) (either neighbour within 1e-9 of a pixel edge)"),
            dict(name="g7_rows_default_impl_2_to_2", kind="bounded", covers=1, timeout=1200,
                 bound="source 1x4, crop height 2.0 -> 2 rows (concrete), EVERY f64 crop top accepted by crop(); default ImageView::iter_rows_with_step (TypedImage)",
                 claim="exactly dst_h rows are produced and row y is floor(top + (y+0.5)*ch/dh) (either neighbour within 1e-9 of a pixel edge)"),
            dict(name="g7_rows_default_impl_3_to_2", kind="bounded", covers=1, timeout=1200,
                 bound="source 1x4, crop height 3.0 -> 2 rows (concrete), EVERY f64 crop top accepted by crop(); default ImageView::iter_rows_with_step (TypedImage)",
                 claim="exactly dst_h rows are produced and row y is floor(top + (y+0.5)*ch/dh) (either neighbour within 1e-9 of a pixel edge)"),
            dict(name="g7_rows_typed_ref_subulp_to_1", kind="bounded", covers=1, timeout=1200, props=["C11", "C03", "C05"],
                 bound="source 1x8, crop height 2^-50 (one ulp of a crop top in [4,8)) -> 1 row, EVERY f64 crop top accepted by crop()",
                 claim="exactly one row is produced, the row under the crop (a crop flush against the bottom edge included)"),
            dict(name="g7_col_in_bounds", kind="complete", covers=1, timeout=900, props=["C11", "C03"],
                 claim="for every crop box accepted by crop(), every W, dst_w, x < dst_w: the tabulated column is < W"),
            dict(name="g7_col_integer_crop_7_to_3", kind="bounded", covers=1, timeout=900, tier="thorough", props=["C11"],
                 bound="integer crop of width 7 -> 3 destination columns; EVERY left <= 65535, every source width, every x",
                 claim="column == left + floor((2x+1)cw / 2dw) (either neighbour when the centre is exactly on a pixel edge)"),
            dict(name="g7_col_integer_crop_3_to_7", kind="bounded", covers=1, timeout=900, tier="thorough", props=["C11"],
                 bound="integer crop of width 3 -> 7 destination columns; EVERY left <= 65535, every source width, every x",
                 claim="column == left + floor((2x+1)cw / 2dw) (either neighbour when the centre is exactly on a pixel edge)"),
            dict(name="g7_col_integer_crop_255_to_16", kind="bounded", covers=1, timeout=900, tier="thorough", props=["C11"],
                 bound="integer crop of width 255 -> 16 destination columns; EVERY left <= 65535, every source width, every x",
                 claim="column == left + floor((2x+1)cw / 2dw) (either neighbour when the centre is exactly on a pixel edge)"),
            dict(name="g7_col_integer_crop_1000_to_37", kind="bounded", covers=1, timeout=900, tier="thorough", props=["C11"],
                 bound="integer crop of width 1000 -> 37 destination columns; EVERY left <= 65535, every source width, every x",
                 claim="column == left + floor((2x+1)cw / 2dw) (either neighbour when the centre is exactly on a pixel edge)"),
            dict(name="g7_col_is_pixel_under_centre", kind="complete", covers=1, timeout=1500, tier="dev", props=["C11"],
                 claim="for all integer crops (left, cw <= 65535), all dst_w <= 65535, all x: column == left + floor((2x+1)cw / 2dw) "
                       "(either neighbour when the centre is within 2^-30 of a pixel edge)"),
        ],
    ),
)
