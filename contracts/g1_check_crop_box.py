"""G1 — check_crop_box: accepts exactly the rectangles inside the image.

Oracle (from the statement of C04, over mathematical integers):
    Ok  <=>  left < W  and  top < H  and  left+width <= W  and  top+height <= H
"""

F = "src/images/typed_cropped_image.rs"

UNIT = dict(
    id="G1",
    title="check_crop_box accepts exactly the u32 rectangles that lie inside the image; no overflow",
    assumptions=["Verus side uses a variants-only stub of enum CropBoxError (the Kani twin uses the real type)"],
    verus=dict(
        prelude="""
pub enum CropBoxError { PositionIsOutOfImageBoundaries, SizeIsOutOfImageBoundaries, WidthOrHeightLessThanZero }

pub open spec fn crop_inside(iw: int, ih: int, l: int, t: int, w: int, h: int) -> bool {
    l < iw && t < ih && l + w <= iw && t + h <= ih
}
""",
        fns=[dict(
            file=F, name="check_crop_box", ret="r",
            header="""ensures
        r.is_ok() <==> crop_inside(img_width as int, img_height as int, left as int, top as int, width as int, height as int),
        (left >= img_width || top >= img_height) ==> r == Err::<(), CropBoxError>(CropBoxError::PositionIsOutOfImageBoundaries),
        (left < img_width && top < img_height && !r.is_ok()) ==> r == Err::<(), CropBoxError>(CropBoxError::SizeIsOutOfImageBoundaries),""",
            obligations=["Ok <=> rectangle inside image over mathematical integers", "documented error kind",
                         "no u32 overflow in right/bottom"],
        )],
        twins={"check_crop_box": "g1_twin"},
    ),
    kani=dict(
        functions=[dict(file=F, fn="check_crop_box")],
        modules=[dict(file=F, name="fv_g1", code="""
    fn inside(iw: u32, ih: u32, l: u32, t: u32, w: u32, h: u32) -> bool {
        (l as u64) < iw as u64 && (t as u64) < ih as u64
            && l as u64 + w as u64 <= iw as u64 && t as u64 + h as u64 <= ih as u64
    }

    #[kani::proof]
    fn g1_twin() {
        let (iw, ih, l, t, w, h): (u32, u32, u32, u32, u32, u32) = kani::any();
        let r = check_crop_box(iw, ih, l, t, w, h);
        kani::cover!(r.is_ok());
        kani::cover!(r.is_err());
        assert!(r.is_ok() == inside(iw, ih, l, t, w, h));
        if l >= iw || t >= ih {
            assert!(r == Err(CropBoxError::PositionIsOutOfImageBoundaries));
        } else if r.is_err() {
            assert!(r == Err(CropBoxError::SizeIsOutOfImageBoundaries));
        }
    }

    // The four constructors are call sites of check_crop_box: accepted <=> inside,
    // and an accepted view reports exactly the requested size.
    #[kani::proof]
    fn g1_ctor_typed_cropped() {
        let (iw, ih): (u32, u32) = (kani::any(), kani::any());
        kani::assume(iw <= 3 && ih <= 3);
        let buf = [crate::pixels::U8::new(0); 9];
        let img = crate::images::TypedImageRef::new(iw, ih, &buf).unwrap();
        let (l, t, w, h): (u32, u32, u32, u32) = kani::any();
        let r = TypedCroppedImage::from_ref(&img, l, t, w, h);
        kani::cover!(r.is_ok());
        assert!(r.is_ok() == inside(iw, ih, l, t, w, h));
        if let Ok(v) = r {
            assert!(v.width() == w && v.height() == h);
        }
        let r2 = TypedCroppedImage::new(crate::images::TypedImageRef::new(iw, ih, &buf).unwrap(), l, t, w, h);
        assert!(r2.is_ok() == inside(iw, ih, l, t, w, h));
    }

    #[kani::proof]
    fn g1_ctor_typed_cropped_mut() {
        let (iw, ih): (u32, u32) = (kani::any(), kani::any());
        kani::assume(iw <= 3 && ih <= 3);
        let mut buf = [crate::pixels::U8::new(0); 9];
        let mut buf2 = [crate::pixels::U8::new(0); 9];
        let mut img = crate::images::TypedImage::from_pixels_slice(iw, ih, &mut buf).unwrap();
        let (l, t, w, h): (u32, u32, u32, u32) = kani::any();
        let r = TypedCroppedImageMut::from_ref(&mut img, l, t, w, h);
        kani::cover!(r.is_ok());
        assert!(r.is_ok() == inside(iw, ih, l, t, w, h));
        if let Ok(v) = r {
            assert!(v.width() == w && v.height() == h);
        }
        let img2 = crate::images::TypedImage::from_pixels_slice(iw, ih, &mut buf2).unwrap();
        let r2 = TypedCroppedImageMut::new(img2, l, t, w, h);
        assert!(r2.is_ok() == inside(iw, ih, l, t, w, h));
    }
""")],
        harnesses=[
            dict(name="g1_twin", kind="complete", covers=2, timeout=120,
                 claim="check_crop_box: Ok <=> inside (u64 oracle), error kinds, no overflow; all u32^6"),
            dict(name="g1_ctor_typed_cropped", kind="complete", covers=1, timeout=300,
                 claim="TypedCroppedImage::{new,from_ref}: accepted <=> inside, for all u32 (left,top,width,height), "
                       "all image sizes <= 3x3 (the image size only feeds width()/height())"),
            dict(name="g1_ctor_typed_cropped_mut", kind="complete", covers=1, timeout=300,
                 claim="TypedCroppedImageMut::{new,from_ref}: accepted <=> inside, for all u32 quadruples"),
        ],
    ),
)
