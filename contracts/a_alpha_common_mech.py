"""Mechanical obligation: the two reciprocal tables are defined as the proved
builder applied to the proved precision constant (textual check of the items)."""
import re
from fv import sources

F = "src/alpha/common.rs"


def table_items():
    res = []
    sf = sources.src(F)
    for name, want in (("RECIP_ALPHA", r"pub\(crate\) (?:const|static) RECIP_ALPHA: \[u32; 256\] = recip_alpha_array\(PRECISION\);"),
                       ("RECIP_ALPHA16", r"pub\(crate\) (?:const|static) RECIP_ALPHA16: \[u64; 65536\] = recip_alpha16_array\(PRECISION16\);")):
        try:
            txt, line = sf.find_item(r"\b(?:const|static) %s\b" % name)
        except sources.AnchorLost as e:
            res.append(dict(name="A3::item_%s" % name, status="inconclusive", claim="table item present", detail=[str(e)]))
            continue
        norm = re.sub(r"\s+", " ", txt.strip())
        ok = re.fullmatch(want, norm) is not None
        res.append(dict(name="A3::item_%s" % name, status="discharged" if ok else "failed",
                        claim="%s is defined as the proved builder applied to the proved precision constant" % name,
                        detail=[] if ok else [dict(description="item text changed", text=norm, file=F, line=line)], checks=1))
    return res
