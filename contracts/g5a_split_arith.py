"""G5a — size arithmetic of the split_by_* bodies, for ALL u32 arguments (Verus).

Oracle (statement of C14): None unless 1 <= parts <= size and the band lies inside
the view; otherwise exactly `parts` sub-views, in order, sizes differ by at most
one (the first size%parts ones are one larger), contiguous from `start`, covering
the band exactly; every sub-rectangle passes check_crop_box (G1), so no unwrap fires.

Statement slice: the method body is verbatim except for the substitutions listed in
the evidence: the call that builds the sub-view is replaced by a contract stand-in
whose precondition is G1's acceptance predicate (modular: callee -> contract), the
return type `impl ImageView` by the ghost record FvPart, `for _ in` by `for _k in`,
`debug_assert!` by `assert`.
"""

FV = "src/image_view.rs"

PRELUDE = r"""
pub open spec fn crop_inside(iw: int, ih: int, l: int, t: int, w: int, h: int) -> bool {
    l < iw && t < ih && l + w <= iw && t + h <= ih
}
// stand-in for core::num::NonZeroU32 (value > 0 is its type invariant)
pub struct NonZeroU32 { pub v: u32 }
impl NonZeroU32 {
    pub open spec fn wf(self) -> bool { self.v > 0 }
    pub fn get(self) -> (r: u32) requires self.wf() ensures r == self.v, r > 0 { self.v }
}
pub struct FvPart { pub left: u32, pub top: u32, pub width: u32, pub height: u32 }
pub struct FvView { pub w: u32, pub h: u32 }
pub open spec fn min_int(a: int, b: int) -> int { if a < b { a } else { b } }
pub open spec fn part_pos(start: int, size: int, parts: int, k: int) -> int { start + k * (size / parts) + min_int(k, size % parts) }
pub open spec fn part_len(size: int, parts: int, k: int) -> int { size / parts + if k < size % parts { 1int } else { 0int } }

pub open spec fn tiling_h(v: Seq<FvPart>, view: FvView, start: int, size: int, parts: int) -> bool {
    &&& v.len() == parts
    &&& forall|k: int| 0 <= k < parts ==> {
        &&& (#[trigger] v[k]).left == 0 && v[k].width == view.w
        &&& v[k].top == part_pos(start, size, parts, k)
        &&& v[k].height == part_len(size, parts, k)
        &&& crop_inside(view.w as int, view.h as int, 0, v[k].top as int, view.w as int, v[k].height as int) }
    &&& part_pos(start, size, parts, parts) == start + size
}
pub open spec fn tiling_w(v: Seq<FvPart>, view: FvView, start: int, size: int, parts: int) -> bool {
    &&& v.len() == parts
    &&& forall|k: int| 0 <= k < parts ==> {
        &&& (#[trigger] v[k]).top == 0 && v[k].height == view.h
        &&& v[k].left == part_pos(start, size, parts, k)
        &&& v[k].width == part_len(size, parts, k)
        &&& crop_inside(view.w as int, view.h as int, v[k].left as int, 0, v[k].width as int, view.h as int) }
    &&& part_pos(start, size, parts, parts) == start + size
}

impl FvView {
    fn width(&self) -> (r: u32) ensures r == self.w { self.w }
    fn height(&self) -> (r: u32) ensures r == self.h { self.h }
    // contract stand-in for `TypedCroppedImage{,Mut}::{from_ref,new}(view, l, t, w, h).unwrap()`:
    // by G1 the constructor returns Ok exactly when crop_inside holds, so unwrap() requires crop_inside
    fn fv_sub_view(&self, left: u32, top: u32, width: u32, height: u32) -> (p: FvPart)
        requires crop_inside(self.w as int, self.h as int, left as int, top as int, width as int, height as int)
        ensures p == (FvPart { left, top, width, height })
    { FvPart { left, top, width, height } }
}
"""


def spec(name, within, by_height, mutable):
    size, pos, plen, other_dim, dim = ("height", "top", "part_height", "width", "h") if by_height else ("width", "left", "part_width", "height", "w")
    start = "start_row" if by_height else "start_col"
    tiling = "tiling_h" if by_height else "tiling_w"
    me = "old(self)" if mutable else "self"
    nonempty = (me + ".w > 0") if by_height else (me + ".h > 0")
    frame = "\n            *final(self) == *old(self)," if mutable else ""
    ctor = (r"TypedCroppedImageMut::new\(\s*unsafe_image\.clone\(\),\s*" if mutable else r"TypedCroppedImage::from_ref\(\s*self,\s*")
    subst = [
        dict(pattern=r"Option<Vec<impl ImageView(?:Mut)?<Pixel = Self::Pixel>>>", repl="Option<Vec<FvPart>>", why="ghost record instead of the opaque view type"),
        dict(pattern=r"for _ in", repl="for _k in", why="Verus needs a named loop variable for the invariant"),
        dict(pattern=ctor + r"([^;]*?)\)\s*\.unwrap\(\)", repl=r"self.fv_sub_view(\1)",
             why="callee replaced by its contract (G1): constructor(...).unwrap() requires crop_inside"),
        dict(pattern=r"debug_assert!", repl="assert", why="checked as a proof obligation"),
    ]
    if mutable:
        subst.append(dict(pattern=r"let unsafe_image = UnsafeImageMut::new\(self\);", repl="", why="aliasing wrapper; its rows are checked by G4/G5b (Kani)"))
    hdr = """requires %(size)s.wf(), num_parts.wf(), %(nonempty)s,
        ensures
            r.is_none() <==> !(num_parts.v <= %(size)s.v && %(size)s.v <= %(me)s.%(dim)s && %(start)s as int <= %(me)s.%(dim)s - %(size)s.v),
            r.is_some() ==> %(tiling)s(r.unwrap()@, *%(me)s, %(start)s as int, %(size)s.v as int, num_parts.v as int),%(frame)s""" % locals()
    pre = """        proof {
            assert(%(size)s as int == (%(size)s as int / num_parts as int) * num_parts as int + %(size)s as int %% num_parts as int) by(nonlinear_arith) requires num_parts > 0;
            assert(step >= 1) by(nonlinear_arith) requires step == %(size)s / num_parts, %(size)s >= num_parts, num_parts > 0;
            let _fix_type: Seq<FvPart> = res@;
        }""" % locals()
    if by_height:
        elem = """&&& (#[trigger] res@[j]).left == 0 && res@[j].width == self.w
                    &&& res@[j].top == part_pos(start_row as int, height as int, num_parts as int, j)
                    &&& res@[j].height == part_len(height as int, num_parts as int, j)
                    &&& crop_inside(self.w as int, self.h as int, 0, res@[j].top as int, self.w as int, res@[j].height as int)"""
        inv_other = "width == self.w, self.w > 0"
    else:
        elem = """&&& (#[trigger] res@[j]).top == 0 && res@[j].height == self.h
                    &&& res@[j].left == part_pos(start_col as int, width as int, num_parts as int, j)
                    &&& res@[j].width == part_len(width as int, num_parts as int, j)
                    &&& crop_inside(self.w as int, self.h as int, res@[j].left as int, 0, res@[j].width as int, self.h as int)"""
        inv_other = "height == self.h, self.h > 0"
    inv = """invariant
                num_parts > 0, %(size)s >= num_parts, %(size)s <= self.%(dim)s, %(start)s as int <= self.%(dim)s - %(size)s, %(inv_other)s,
                step as int == %(size)s as int / num_parts as int, step >= 1,
                %(size)s as int == step as int * num_parts as int + %(size)s as int %% num_parts as int,
                modulo as int == (if (_k as int) < %(size)s as int %% num_parts as int { %(size)s as int %% num_parts as int - _k as int } else { 0int }),
                %(pos)s as int == part_pos(%(start)s as int, %(size)s as int, num_parts as int, _k as int),
                res@.len() == _k,
                forall|j: int| 0 <= j < _k ==> {
                    %(elem)s },""" % locals()
    body_hint = """            proof {
                let k = _k as int; let m = %(size)s as int %% num_parts as int; let s = step as int; let n = num_parts as int;
                assert(0 <= m < n) by(nonlinear_arith) requires m == %(size)s as int %% n, n > 0;
                assert(k * s + min_int(k, m) + s + (if k < m { 1int } else { 0int }) <= s * n + m) by(nonlinear_arith)
                    requires 0 <= k < n, 0 <= m < n, s >= 1;
                assert((k + 1) * s == k * s + s) by(nonlinear_arith);
            }""" % locals()
    post = """        proof {
            let m = %(size)s as int %% num_parts as int; let n = num_parts as int;
            assert(0 <= m < n) by(nonlinear_arith) requires m == %(size)s as int %% n, n > 0;
            assert(n * (%(size)s as int / n) == (%(size)s as int / n) * n) by(nonlinear_arith);
        }""" % locals()
    return dict(file=FV, name=name, within=within, ret="r", header=hdr, subst=subst,
                wrap_before="impl FvView {", wrap_after="}",
                rename=name + ("_default_mut" if mutable else "_default"),
                loops=[dict(anchor="for _ in 0..num_parts", text=inv)],
                inserts=[dict(before="for _ in 0..num_parts", text=pre),
                         dict(before="let mut %s = step;" % plen, text=body_hint),
                         dict(before="debug_assert!", text=post)],
                obligations=["None <=> not(parts <= size <= dim and start <= dim - size)",
                             "Some: exactly `parts` sub-views, contiguous from start, sizes size/parts (+1 for the first size%parts), sum == size",
                             "every sub-rectangle satisfies G1's acceptance predicate: unwrap() cannot fire", "no u32 overflow"])


UNIT = dict(
    id="G5a",
    title="split_by_{height,width}{,_mut} default bodies: exact ordered tiling arithmetic for all u32 (statement slice)",
    assumptions=["statement slice: sub-view construction replaced by a contract stand-in (precondition = G1's predicate); the view type, "
                 "NonZeroU32 and self.width()/height() are stand-ins defined in the Verus prelude; pixel identity of the sub-views is G5b (Kani, bounded)",
                 "precondition `other dimension > 0`: splitting a view whose other dimension is 0 is outside this contract (see known findings)"],
    verus=dict(
        prelude=PRELUDE,
        fns=[
            spec("split_by_height", r"pub unsafe trait ImageView: Sync", True, False),
            spec("split_by_width", r"pub unsafe trait ImageView: Sync", False, False),
            spec("split_by_height_mut", r"pub unsafe trait ImageViewMut: ImageView", True, True),
            spec("split_by_width_mut", r"pub unsafe trait ImageViewMut: ImageView", False, True),
        ],
        timeout=600,
    ),
)
