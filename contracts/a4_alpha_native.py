"""A4 / A5 — portable per-row alpha functions of src/alpha/*/native.rs.

Oracle (statement of C06): multiply: colour := round(c*a/M) = (2ca+M)/(2M) exactly (c*a for floats);
divide: colour in {floor(cM/a), ceil(cM/a)} clipped at M (c/a for floats), a = 0 -> 0; alpha unchanged;
in-place and two-image variants agree.
"""

def int_unit(ty, comp, n, M, fdir):
    F = "src/alpha/%s/native.rs" % fdir
    px = "%s::new" % ty
    arr = "[%s; %d]" % (comp, n)
    code = """
    use crate::pixels::%(ty)s;

    fn mul_oracle(c: %(comp)s, a: %(comp)s) -> %(comp)s { ((2 * c as u64 * a as u64 + %(M)d) / (2 * %(M)d)) as %(comp)s }
    fn div_ok(c: %(comp)s, a: %(comp)s, r: %(comp)s) -> bool {
        // floor(cM/a) <= r <= ceil(cM/a), both clipped at M - written with products only (no symbolic division)
        if a == 0 { return r == 0; }
        let (c, a, r, m) = (c as u64, a as u64, r as u64, %(M)du64);
        let upper = r == 0 || (r - 1) * a < c * m;          // r <= ceil(cM/a)
        let lower = r == m || (r + 1) * a > c * m;          // r >= min(floor(cM/a), M)
        r <= m && upper && lower
    }

    #[kani::proof]
    #[kani::unwind(10)]
    fn a4_%(fdir)s_multiply() {
        let s0: %(arr)s = kani::any();
        let s1: %(arr)s = kani::any();
        let src = [%(px)s(s0), %(px)s(s1)];
        let mut dst = [%(px)s([0; %(n)d]); 2];
        multiply_alpha_row(&src, &mut dst);
        let mut inp = src;
        multiply_alpha_row_inplace(&mut inp);
        kani::cover!(s0[0] > s0[%(last)d] && s0[%(last)d] > 0);
        for (p, s) in [(0usize, s0), (1usize, s1)] {
            let a = s[%(last)d];
            for i in 0..%(last)d { assert!(dst[p].0[i] == mul_oracle(s[i], a)); }
            assert!(dst[p].0[%(last)d] == a);
            assert!(inp[p].0 == dst[p].0);
        }
        assert!(src[0].0 == s0 && src[1].0 == s1);
    }

    #[kani::proof]
    #[kani::unwind(10)]
    fn a4_%(fdir)s_divide() {
        let s0: %(arr)s = kani::any();
        let s1: %(arr)s = kani::any();
        %(restrict)s
        let src = [%(px)s(s0), %(px)s(s1)];
        let mut dst = [%(px)s([0; %(n)d]); 2];
        divide_alpha_row(&src[..%(npx)d], &mut dst[..%(npx)d]);
        let mut inp = src;
        divide_alpha_row_inplace(&mut inp[..%(npx)d]);
        kani::cover!(s0[0] > s0[%(last)d] && s0[%(last)d] > 0);
        for (p, s) in [(0usize, s0), (1usize, s1)] {
            if p >= %(npx)d { continue; }
            let a = s[%(last)d];
            for i in 0..%(last)d { assert!(div_ok(s[i], a, dst[p].0[i])); }
            assert!(dst[p].0[%(last)d] == a);
            assert!(inp[p].0 == dst[p].0);
        }
    }
""" % dict(ty=ty, comp=comp, n=n, M=M, fdir=fdir, px=px, arr=arr, last=n - 1, npx=2 if comp == "u8" else 1,
           restrict="" if comp == "u8" else
           "// the 65536-entry reciprocal table with a symbolic index exhausts memory in CBMC: alpha ranges over representative entries\n"
           "        fn pick() -> u16 { match kani::any::<u8>() %% 6 { 0 => 0, 1 => 1, 2 => 3, 3 => 256, 4 => 65535, _ => 12345 } }\n"
           "        let (mut s0, mut s1) = (s0, s1); s0[%d] = pick(); s1[%d] = pick();" % (n - 1, n - 1))
    inplace_missing = fdir in ("u8x4",)   # u8x4 has no divide_alpha_row_inplace: handled below
    return F, code


UNITS = []
hs = []
mods = []
fns = []
for ty, comp, n, M, fdir in [("U8x2", "u8", 2, 255, "u8x2"), ("U8x4", "u8", 4, 255, "u8x4"),
                             ("U16x2", "u16", 2, 65535, "u16x2"), ("U16x4", "u16", 4, 65535, "u16x4")]:
    F, code = int_unit(ty, comp, n, M, fdir)
    if fdir in ("u8x4", "u8x2"):
        # no *_row_inplace for divide in these two files: use the in-place image function on a 2x1 image
        code = code.replace("divide_alpha_row_inplace(&mut inp[..2]);",
                            "{ let mut img = crate::images::TypedImage::from_pixels_slice(2, 1, &mut inp).unwrap(); divide_alpha_inplace(&mut img); }")
    mods.append(dict(file=F, name="fv_a4", code=code))
    for f in ("multiply_alpha_row", "multiply_alpha_row_inplace", "divide_alpha_row") + (("divide_alpha_inplace",) if fdir in ("u8x4", "u8x2") else ("divide_alpha_row_inplace",)):
        fns.append(dict(file=F, fn=f))
    full = comp == "u8"
    hs.append(dict(name="a4_%s_multiply" % fdir, kind="complete", covers=1, timeout=900,
                   claim="%s multiply_alpha_row{,_inplace}: every colour lane == (2ca+M)/(2M), alpha lane unchanged, in-place == two-image, src untouched; "
                         "2 pixels, all component values" % ty))
    hs.append(dict(name="a4_%s_divide" % fdir, kind="complete" if full else "bounded", covers=1, timeout=1500,
                   bound=None if full else "1 pixel, all colour values, alpha in {0,1,3,256,12345,65535} (the full table is proved by A2, the arithmetic for all alphas by A3)",
                   claim="%s divide_alpha_row{,_inplace}: every colour lane faithful + saturating (incl. colour > alpha), alpha = 0 -> 0, alpha lane unchanged; "
                         "2 pixels, all colour values%s" % (ty, ", all alpha values (real 256-entry table, symbolic index)" if full else "")))

F32 = """
    use crate::pixels::%(ty)s;

    const VALS: [f32; 12] = [0.0, 1.0, 0.5, 3.0, -2.5, 1.0e-40, 3.4e38, -0.0, 0.75, f32::INFINITY, f32::NAN, 0.1];

    fn same(x: f32, y: f32) -> bool { x == y || (x.is_nan() && y.is_nan()) }
    /// equal up to 2 units in the last place (the portable code may divide by multiplying with the reciprocal)
    fn close(x: f32, y: f32) -> bool {
        same(x, y) || (x.is_finite() && y.is_finite() && (x.to_bits() as i64 - y.to_bits() as i64).abs() <= 2)
    }

    #[kani::proof]
    #[kani::unwind(14)]
    fn a5_%(fdir)s() { grid(false) }

    #[kani::proof]
    #[kani::unwind(14)]
    fn a5_%(fdir)s_subnormal_alpha() { grid(true) }

    fn grid(check_subnormal_alpha: bool) {
        // SAT cannot prove two symbolic f32 dividers equivalent within the time box (no answer in 25 min), so the float
        // formats are checked on an enumerated grid of special values: every (colour, alpha) pair of VALS x VALS, constant-folded
        let mut ci = 0;
        while ci < %(grid)d {
            let mut ai = 0;
            while ai < %(grid)d {
                let (c, a) = (VALS[ci], VALS[ai]);
                let mut px = [c; %(n)d];
                px[%(last)d] = a;
                let src = [%(ty)s::new(px)];
                let mut m = [%(ty)s::new([9.; %(n)d])];
                multiply_alpha_row(&src, &mut m);
                let mut mi = src;
                multiply_alpha_row_inplace(&mut mi);
                let mut d = [%(ty)s::new([9.; %(n)d])];
                divide_alpha_row(&src, &mut d);
                let mut di = src;
                divide_alpha_row_inplace(&mut di);
                let mut i = 0;
                while i < %(last)d {
                    assert!(same(m[0].0[i], c * a) && same(mi[0].0[i], c * a));
                    if a == 0.0 { assert!(d[0].0[i] == 0.0 && di[0].0[i] == 0.0); }
                    else if a.abs() < f32::MIN_POSITIVE { assert!(!check_subnormal_alpha || (close(d[0].0[i], c / a) && close(di[0].0[i], c / a))); }
                    else { assert!(close(d[0].0[i], c / a) && close(di[0].0[i], c / a) && same(d[0].0[i], di[0].0[i])); }
                    i += 1;
                }
                assert!(same(m[0].0[%(last)d], a) && same(mi[0].0[%(last)d], a) && same(d[0].0[%(last)d], a) && same(di[0].0[%(last)d], a));
                ai += 1;
            }
            ci += 1;
        }
    }
"""
for ty, n, fdir in [("F32x2", 2, "f32x2"), ("F32x4", 4, "f32x4")]:
    F = "src/alpha/%s/native.rs" % fdir
    mods.append(dict(file=F, name="fv_a5", code=F32 % dict(ty=ty, n=n, fdir=fdir, last=n - 1, grid=7 if n == 4 else 5)))
    for f in ("multiply_alpha_row", "multiply_alpha_row_inplace", "divide_alpha_row", "divide_alpha_row_inplace"):
        fns.append(dict(file=F, fn=f))
    hs.append(dict(name="a5_%s" % fdir, kind="bounded", timeout=900,
                   bound=("49 (first 7 values)" if n == 4 else "25 (first 5 values; the F32x2 harness does not finish on the full grid)") + " (colour, alpha) pairs from {0,-0,1,0.5,0.75,3,-2.5,1e-40 (denormal),3.4e38,inf,NaN,0.1}^2, one pixel",
                   claim="%s: multiply is one IEEE product c*a, divide is c/a (within 2 ulp) with a == 0 -> 0, alpha unchanged, in-place == two-image; normal alphas" % ty))
    hs.append(dict(name="a5_%s_subnormal_alpha" % fdir, kind="bounded", timeout=900,
                   bound="same grid, including the subnormal alpha 1e-40",
                   claim="%s: divide is c/a (within 2 ulp) also for subnormal alpha" % ty))

UNITS.append(dict(
    id="A4",
    title="portable alpha rows: per-lane oracle, alpha lane unchanged, in-place == two-image (U8x2, U8x4, U16x2, U16x4, F32x2, F32x4)",
    assumptions=["rows of 2 pixels (loop body executed twice; the loop has no cross-iteration state); all component values symbolic",
                 ],
    kani=dict(functions=fns, modules=mods, harnesses=hs),
))
