"""A1-A3 — integer alpha arithmetic of src/alpha/common.rs.

Oracles (statement of C06, mathematical integers):
  multiply:  round(c*a/M)            = floor((2*c*a + M) / (2*M))          (round half up)
  reciprocal table: T[0] = 0,  T[a] = floor((2*M*2^p / a + 1) / 2)           (round half up of M*2^p/a)
  divide:    result in {floor(c*M/a), ceil(c*M/a)} saturated at M; a = 0 -> 0
"""

F = "src/alpha/common.py".replace(".py", ".rs")

PRELUDE = r"""
pub open spec fn round_div(n: int, m: int) -> int { (2 * n + m) / (2 * m) }

pub open spec fn recip8(a: int) -> int { if a == 0 { 0 } else { ((255int * 512) / a + 1) / 2 } }

pub open spec fn recip16(a: int) -> int { if a == 0 { 0 } else { ((0xffffint * 0x4_0000_0000) / a + 1) / 2 } }
"""

UNITS = [dict(
    id="A1",
    title="mul_div_255 / mul_div_65535 are exactly round-half-up of a*b/M for every pair",
    verus=dict(
        prelude=PRELUDE,
        fns=[
            dict(file=F, name="mul_div_255", ret="r",
                 header="""ensures
        r as int == round_div(a as int * b as int, 255),
        b == 0 ==> r == 0,
        b == 255 ==> r == a,
        a == 0 ==> r == 0,
        r <= a && r <= b,""",
                 inserts=[dict(at="start", text="""    proof {
        assert((a as u32) * (b as u32) <= 65025) by(nonlinear_arith) requires a <= 255, b <= 255;
    }"""),
                          dict(at="start", text="""    proof {
        let p: u32 = (a as u32 * b as u32) as u32;
        assert(p <= 65025 ==> add(add(p, 128) >> 8, add(p, 128)) >> 8 == (2 * p + 255) / 510) by(bit_vector);
        assert(p <= 65025 ==> add(add(p, 128) >> 8, add(p, 128)) <= 0xffff_ffffu32 - 0 && add(p,128) == p + 128 && add(add(p, 128) >> 8, add(p, 128)) == (add(p, 128) >> 8) + add(p, 128)) by(bit_vector);
        assert(p <= 65025 ==> (2 * p + 255) / 510 <= 255) by(bit_vector);
        assert(b == 255 ==> (2 * (a as int * 255) + 255) / 510 == a as int) by(nonlinear_arith) requires a <= 255;
        assert(a as int * b as int <= a as int * 255 && a as int * b as int <= 255 * b as int) by(nonlinear_arith) requires a <= 255, b <= 255;
        assert((2 * (a as int * b as int) + 255) / 510 <= a as int) by(nonlinear_arith) requires a as int * b as int <= a as int * 255, a >= 0, a as int * b as int >= 0;
        assert((2 * (a as int * b as int) + 255) / 510 <= b as int) by(nonlinear_arith) requires a as int * b as int <= 255 * b as int, b >= 0, a as int * b as int >= 0;
    }""")],
                 obligations=["r == floor((2ab+255)/510) for all 65536 pairs", "f(c,0)=0, f(c,255)=c, f(c,a)<=min(c,a)", "no u32 overflow"]),
            dict(file=F, name="mul_div_65535", ret="r",
                 header="""ensures
        r as int == round_div(a as int * b as int, 65535),
        b == 0 ==> r == 0,
        b == 65535 ==> r == a,
        a == 0 ==> r == 0,
        r <= a && r <= b,""",
                 inserts=[dict(at="start", text="""    proof {
        assert((a as u32) * (b as u32) <= 4294836225) by(nonlinear_arith) requires a <= 65535, b <= 65535;
    }"""),
                          dict(at="start", text="""    proof {
        let p: u32 = (a as u32 * b as u32) as u32;
        assert(p <= 4294836225u32 ==> add(add(p, 0x8000) >> 16, add(p, 0x8000)) >> 16 == (2 * (p as u64) + 65535) / 131070) by(bit_vector);
        assert(p <= 4294836225u32 ==> add(p, 0x8000) == p + 0x8000 && add(add(p, 0x8000) >> 16, add(p, 0x8000)) == (add(p, 0x8000) >> 16) + add(p, 0x8000)) by(bit_vector);
        assert(p <= 4294836225u32 ==> (2 * (p as u64) + 65535) / 131070 <= 65535) by(bit_vector);
        assert(b == 65535 ==> (2 * (a as int * 65535) + 65535) / 131070 == a as int) by(nonlinear_arith) requires a <= 65535;
        assert(a as int * b as int <= a as int * 65535 && a as int * b as int <= 65535 * b as int) by(nonlinear_arith) requires a <= 65535, b <= 65535;
        assert((2 * (a as int * b as int) + 65535) / 131070 <= a as int) by(nonlinear_arith) requires a as int * b as int <= a as int * 65535, a >= 0, a as int * b as int >= 0;
        assert((2 * (a as int * b as int) + 65535) / 131070 <= b as int) by(nonlinear_arith) requires a as int * b as int <= 65535 * b as int, b >= 0, a as int * b as int >= 0;
    }""")],
                 obligations=["r == floor((2ab+65535)/131070) for all 2^32 pairs", "f(c,0)=0, f(c,M)=c, f(c,a)<=min(c,a)", "no u32 overflow"]),
        ],
    ),
), dict(
    id="A2",
    title="reciprocal tables: T[0] = 0 and T[a] = round-half-up(M * 2^p / a) for every entry (loop invariant)",
    verus=dict(
        prelude=PRELUDE,
        items=[dict(file=F, pattern=r"const PRECISION: u32"), dict(file=F, pattern=r"const PRECISION16: u64")],
        fns=[
            dict(file=F, name="recip_alpha_array", ret="res",
                 header="""requires precision == 8,
    ensures forall|j: int| 0 <= j < 256 ==> (#[trigger] res[j]) as int == recip8(j),""",
                 inserts=[dict(after="let scale =", text="""    proof {
        assert(1u32 << 9u32 == 512u32) by(bit_vector);
        assert(recip8(0) == 0);
    }"""),
                          dict(before="res[i] =", text="""        proof {
            let q: u32 = (scaled_max / i as u32) as u32;
            assert(add(q, 1) >> 1u32 == add(q, 1) / 2) by(bit_vector);
            assert(130560int / (i as int) <= 130560) by(nonlinear_arith) requires i >= 1;
        }""")],
                 loops=[dict(anchor="while i < 256", text="""invariant 1 <= i <= 256, scaled_max == 130560,
            forall|j: int| 0 <= j < i ==> (#[trigger] res[j]) as int == recip8(j),
            forall|j: int| i <= j < 256 ==> (#[trigger] res[j]) == 0,
        decreases 256 - i,""")],
                 obligations=["RECIP_ALPHA[a] == floor((2*255*256/a + 1)/2) for all a in 1..=255, entry 0 is 0", "no overflow, no division by zero"]),
            dict(file=F, name="recip_alpha16_array", ret="res",
                 header="""requires precision == 33,
    ensures forall|j: int| 0 <= j < 65536 ==> (#[trigger] res[j]) as int == recip16(j),""",
                 inserts=[dict(after="let scale =", text="""    proof {
        assert(1u64 << 34u64 == 0x4_0000_0000u64) by(bit_vector);
        assert(recip16(0) == 0);
    }"""),
                          dict(before="res[i] =", text="""        proof {
            let q: u64 = (scaled_max / i as u64) as u64;
            assert(add(q, 1) >> 1u64 == add(q, 1) / 2) by(bit_vector);
            assert((0xffffint * 0x4_0000_0000) / (i as int) <= 0xffff * 0x4_0000_0000) by(nonlinear_arith) requires i >= 1;
        }""")],
                 loops=[dict(anchor="while i < 65536", text="""invariant 1 <= i <= 65536, scaled_max == 0xffff * 0x4_0000_0000,
            forall|j: int| 0 <= j < i ==> (#[trigger] res[j]) as int == recip16(j),
            forall|j: int| i <= j < 65536 ==> (#[trigger] res[j]) == 0,
        decreases 65536 - i,""")],
                 obligations=["RECIP_ALPHA16[a] == floor((2*65535*2^33/a + 1)/2) for all a in 1..=65535, entry 0 is 0", "no overflow, no division by zero"]),
        ],
        lemmas_after="""
proof fn precision_constants_are_the_ones_the_tables_are_proved_for()
    ensures PRECISION == 8, PRECISION16 == 33
{}
""",
    ),
), dict(
    id="A3",
    title="div_and_clip / div_and_clip16: faithful (floor or ceil of c*M/a), saturating, a=0 -> 0, no overflow",
    assumptions=["div_and_clip16 is specified against the closed form recip16(a) of the table entry, which A2 proves for the table "
                 "builder; the 65536-entry static itself is never given to a solver (the 256-entry one is, in the Kani harness)",
                 "RECIP_ALPHA / RECIP_ALPHA16 are tied to recip_alpha_array(PRECISION) / recip_alpha16_array(PRECISION16) by a "
                 "textual check of the two item definitions (mechanical obligation)"],
    verus=dict(
        prelude=PRELUDE + r"""
pub open spec fn min_int(a: int, b: int) -> int { if a < b { a } else { b } }

// faithful and saturating: floor(c*M/a) <= r <= ceil(c*M/a), both clipped at M
pub open spec fn div_ok(c: int, a: int, r: int, m: int) -> bool {
    min_int((c * m) / a, m) <= r && r <= min_int((c * m + a - 1) / a, m)
}

proof fn lemma_div8_bv(v: u32, a: u32)
    requires 1 <= a <= 255, v <= 255,
    ensures
        add(130560u32 / a, 1) / 2 <= 65280,
        (if mul(v, 255) / a < 255 { mul(v, 255) / a } else { 255u32 })
           <= (if (add(mul(v, add(130560u32 / a, 1) / 2), 128) >> 8u32) < 255 { add(mul(v, add(130560u32 / a, 1) / 2), 128) >> 8u32 } else { 255u32 }),
        (if (add(mul(v, add(130560u32 / a, 1) / 2), 128) >> 8u32) < 255 { add(mul(v, add(130560u32 / a, 1) / 2), 128) >> 8u32 } else { 255u32 })
           <= (if sub(add(mul(v, 255), a), 1) / a < 255 { sub(add(mul(v, 255), a), 1) / a } else { 255u32 }),
{
    assert(1 <= a <= 255 && v <= 255 ==> add(130560u32 / a, 1) / 2 <= 65280) by(bit_vector);
    assert(1 <= a <= 255 && v <= 255 ==>
        (if mul(v, 255) / a < 255 { mul(v, 255) / a } else { 255u32 })
           <= (if (add(mul(v, add(130560u32 / a, 1) / 2), 128) >> 8u32) < 255 { add(mul(v, add(130560u32 / a, 1) / 2), 128) >> 8u32 } else { 255u32 })) by(bit_vector);
    assert(1 <= a <= 255 && v <= 255 ==>
        (if (add(mul(v, add(130560u32 / a, 1) / 2), 128) >> 8u32) < 255 { add(mul(v, add(130560u32 / a, 1) / 2), 128) >> 8u32 } else { 255u32 })
           <= (if sub(add(mul(v, 255), a), 1) / a < 255 { sub(add(mul(v, 255), a), 1) / a } else { 255u32 })) by(bit_vector);
}

proof fn lemma_div8(v: u32, a: u32, t: u32, x: u32)
    requires 1 <= a <= 255, v <= 255, t as int == recip8(a as int), x == ((v * t + 128) as u32) >> 8u32, v * t + 128 <= 0xffff_ffff,
    ensures div_ok(v as int, a as int, if x < 255 { x as int } else { 255int }, 255)
{
    lemma_div8_bv(v, a);
    let tt: u32 = add(130560u32 / a, 1) / 2;
    assert(130560int / (a as int) <= 130560) by(nonlinear_arith) requires a >= 1;
    assert(tt as int == recip8(a as int));
    assert(tt == t);
    assert(v * 255 <= 65025 && v * t <= 255 * 65280) by(nonlinear_arith) requires v <= 255, t <= 65280;
    assert(mul(v, 255) == v * 255);
    assert(mul(v, t) == v * t);
    assert(add(mul(v,t),128) == v*t+128);
    assert(sub(add(mul(v, 255), a), 1) == v * 255 + a - 1);
}

// pure integer argument: x = floor((v*T + P/2) / P) lies between floor and ceil of v*M/a
proof fn lemma_div16(v: int, a: int, t: int, x: int)
    requires 0 <= v <= 65535, 1 <= a <= 65535, t == recip16(a), x == (v * t + 0x1_0000_0000) / 0x2_0000_0000,
    ensures (v * 65535) / a <= x, x <= (v * 65535 + a - 1) / a, t >= 0,
{
    let m = 65535int;
    let p = 0x2_0000_0000int;
    let d = 0xffffint * 0x4_0000_0000;  // 2*M*P
    assert(d == 2 * m * p);
    let f = d / a;
    // f*a <= d < f*a + a
    assert(f * a <= d && d < f * a + a && f >= 0) by(nonlinear_arith) requires f == d / a, a >= 1, d >= 0;
    // 2t <= f + 1, 2t >= f
    assert(t == (f + 1) / 2);
    assert(2 * t <= f + 1 && 2 * t >= f);
    // hence  d - a < 2*t*a <= d + a
    assert(2 * t * a <= d + a && 2 * t * a > d - a) by(nonlinear_arith)
        requires 2 * t <= f + 1, 2 * t >= f, f * a <= d, d < f * a + a, a >= 1;
    let n = v * m;
    let k = n / a;
    let c = (n + a - 1) / a;
    assert(k * a <= n && n < k * a + a && k >= 0) by(nonlinear_arith) requires k == n / a, a >= 1, n >= 0;
    assert(c * a >= n && c * a <= n + a - 1) by(nonlinear_arith) requires c == (n + a - 1) / a, a >= 1, n >= 0;
    let y = v * t + 0x1_0000_0000;
    assert(v * t >= 0) by(nonlinear_arith) requires v >= 0, t >= 0;
    assert(x * p <= y && y < x * p + p) by(nonlinear_arith) requires x == y / p, p == 0x2_0000_0000int, y >= 0;
    // lower bound: k <= x.  Suppose k >= x + 1, then k*p >= x*p + p > y
    if k > x {
        assert(k * p >= x * p + p) by(nonlinear_arith) requires k >= x + 1, p > 0;
        assert(k * p > v * t + 0x1_0000_0000);
        // multiply by 2a
        assert(2 * a * (k * p) > 2 * a * (v * t) + a * p) by(nonlinear_arith)
            requires k * p > v * t + 0x1_0000_0000, a >= 1, p == 0x2_0000_0000int;
        // 2*a*v*t >= v*(d - a + 1)
        assert(2 * a * (v * t) >= v * (d - a + 1)) by(nonlinear_arith) requires 2 * t * a >= d - a + 1, v >= 0;
        assert(2 * a * (k * p) <= 2 * p * n) by(nonlinear_arith) requires k * a <= n, p > 0;
        assert(2 * p * n == v * d) by(nonlinear_arith) requires n == v * m, d == 2 * m * p;
        // so v*d > v*d - v*a + v + a*p   =>  v*a > v + a*p ; but v < p
        assert(v * (d - a + 1) == v * d - v * a + v) by(nonlinear_arith);
        assert(v * a <= a * p) by(nonlinear_arith) requires v <= 65535, p == 0x2_0000_0000int, a >= 1;
        assert(false);
    }
    // upper bound: x <= c.  Suppose x >= c + 1
    if x > c {
        assert(x * p >= c * p + p) by(nonlinear_arith) requires x >= c + 1, p > 0;
        assert((c + 1) * p <= v * t + 0x1_0000_0000) by(nonlinear_arith) requires x * p >= c * p + p, x * p <= y, y == v * t + 0x1_0000_0000;
        assert(2 * a * ((c + 1) * p) <= 2 * a * (v * t) + a * p) by(nonlinear_arith)
            requires (c + 1) * p <= v * t + 0x1_0000_0000, a >= 1, p == 0x2_0000_0000int;
        assert(2 * a * (v * t) <= v * (d + a)) by(nonlinear_arith) requires 2 * t * a <= d + a, v >= 0;
        assert(2 * a * ((c + 1) * p) >= 2 * p * (n + a)) by(nonlinear_arith) requires c * a >= n, p > 0, a >= 1;
        assert(2 * p * (n + a) == v * d + 2 * p * a) by(nonlinear_arith) requires n == v * m, d == 2 * m * p;
        assert(v * (d + a) == v * d + v * a) by(nonlinear_arith);
        // v*d + 2pa <= v*d + v*a + a*p  => p*a <= v*a => p <= v
        assert(v * a < p * a) by(nonlinear_arith) requires v <= 65535, p == 0x2_0000_0000int, a >= 1;
        assert(false);
    }
}

""",
        items=[dict(file=F, pattern=r"const PRECISION: u32"), dict(file=F, pattern=r"const ROUND_CORRECTION: u32"),
               dict(file=F, pattern=r"const PRECISION16: u64"), dict(file=F, pattern=r"const ROUND_CORRECTION16: u64")],
        fns=[
            dict(file=F, name="div_and_clip", ret="r",
                 header="""requires recip_alpha <= 65280,
    ensures
        recip_alpha == 0 ==> r == 0,
        forall|a: int| #![trigger recip8(a)] 1 <= a <= 255 && recip_alpha as int == recip8(a) ==> div_ok(v as int, a, r as int, 255),""",
                 inserts=[dict(before="((v as u32", text="""    proof {
        assert(1u32 << 7u32 == 128u32) by(bit_vector);
        assert(v as u32 * recip_alpha <= 255 * 65280) by(nonlinear_arith) requires v <= 255, recip_alpha <= 65280;
        assert(128u32 >> 8u32 == 0u32) by(bit_vector);
        assert forall|a: int| #![trigger recip8(a)] 1 <= a <= 255 && recip_alpha as int == recip8(a) implies
            div_ok(v as int, a, (if (((v as u32 * recip_alpha + 128) as u32) >> 8u32) < 255 { (((v as u32 * recip_alpha + 128) as u32) >> 8u32) as int } else { 255int }), 255) by {
            lemma_div8(v as u32, a as u32, recip_alpha, ((v as u32 * recip_alpha + 128) as u32) >> 8u32);
        }
    }""")],
                 obligations=["floor(255c/a) <= r <= ceil(255c/a), clipped at 255, for every (c, a) incl. c > a", "T = 0 (alpha 0) gives 0", "no u32 overflow"]),
            dict(file=F, name="div_and_clip16", ret="r",
                 header="""requires recip_alpha <= 0xffff * 0x2_0000_0000,
    ensures
        recip_alpha == 0 ==> r == 0,
        forall|a: int| #![trigger recip16(a)] 1 <= a <= 65535 && recip_alpha as int == recip16(a) ==> div_ok(v as int, a, r as int, 65535),""",
                 inserts=[dict(before="((v as u64", text="""    proof {
        assert(1u64 << 32u64 == 0x1_0000_0000u64) by(bit_vector);
        let xt: int = (v as int * recip_alpha as int + 0x1_0000_0000) / 0x2_0000_0000;
        let y: u64 = (v as u64).saturating_mul(recip_alpha);
        let z: u64 = y.saturating_add(0x1_0000_0000u64);
        assert(v as int * recip_alpha as int >= 0) by(nonlinear_arith) requires v >= 0, recip_alpha >= 0;
        assert(forall|w: u64| #[trigger] (w >> 33u64) == w / 0x2_0000_0000u64) by(bit_vector);
        if v as int * recip_alpha as int + 0x1_0000_0000 <= 0xffff_ffff_ffff_ffff {
            assert(z as int == v as int * recip_alpha as int + 0x1_0000_0000);
            assert((z >> 33u64) as int == xt);
        } else {
            assert(z == 0xffff_ffff_ffff_ffffu64);
            assert((z >> 33u64) >= 0xffff);
            assert(xt >= 0xffff);
        }
        assert(min_int((z >> 33u64) as int, 0xffff) == min_int(xt, 0xffff));
        assert forall|a: int| #![trigger recip16(a)] 1 <= a <= 65535 && recip_alpha as int == recip16(a) implies
            div_ok(v as int, a, min_int(xt, 0xffff), 65535) by {
            lemma_div16(v as int, a, recip_alpha as int, xt);
        }
    }""")],
                 obligations=["floor(65535c/a) <= r <= ceil(65535c/a), clipped at 65535, for all 2^32 (c, a) pairs incl. c > a",
                              "T = 0 (alpha 0) gives 0", "no u64 overflow (alpha = 1, colour >= 32769)"]),
        ],
        twins={"div_and_clip16": "a3_div16_small_alpha", "div_and_clip": "a3_div8_table"},
    ),
    kani=dict(
        functions=[dict(file=F, fn="div_and_clip"), dict(file=F, fn="div_and_clip16")],
        modules=[dict(file=F, name="fv_a3", code="""
    fn ok(c: u64, a: u64, r: u64, m: u64) -> bool {
        let lo = core::cmp::min(c * m / a, m);
        let hi = core::cmp::min((c * m + a - 1) / a, m);
        lo <= r && r <= hi
    }

    #[kani::proof]
    fn a3_div8_table() {
        let (c, a): (u8, u8) = (kani::any(), kani::any());
        let r = div_and_clip(c, RECIP_ALPHA[a as usize]);
        kani::cover!(c > a && a > 0);
        if a == 0 { assert!(r == 0); } else { assert!(ok(c as u64, a as u64, r as u64, 255)); }
    }

    #[kani::proof]
    fn a3_div16_small_alpha() {
        let c: u16 = kani::any();
        let a: u16 = kani::any();
        kani::assume(a <= 3);
        let recip = match a { 0 => RECIP_ALPHA16[0], 1 => RECIP_ALPHA16[1], 2 => RECIP_ALPHA16[2], _ => RECIP_ALPHA16[3] };
        let r = div_and_clip16(c, recip);
        kani::cover!(c > 40000 && a == 1);
        if a == 0 { assert!(r == 0); } else { assert!(ok(c as u64, a as u64, r as u64, 65535)); }
    }
""")],
        harnesses=[
            dict(name="a3_div8_table", kind="complete", covers=1, timeout=600,
                 claim="div_and_clip(c, RECIP_ALPHA[a]) on the real 256-entry table: faithful + saturating for all 65536 (c, a)"),
            dict(name="a3_div16_small_alpha", kind="complete", covers=1, timeout=600,
                 claim="div_and_clip16(c, RECIP_ALPHA16[a]) for a in 0..=3 and every c (the alphas whose reciprocal is >= 2^47): "
                       "no u64 overflow, faithful + saturating; twin of the Verus obligation, yields the concrete input"),
        ],
    ),
    mechanical=lambda: __import__("a_alpha_common_mech").table_items(),
)]
