"""K10 — the remaining native convolution kernels == the convolution formula.

Integer kernels (u8x2, u8x3: Normalizer16 / u16x2, u16x3, u16x4, vertical_u16: Normalizer32): oracle `fv_oracle16` / `fv_oracle32`
of k7_kernels.SUPPORT, channel by channel:
   dst = clamp( floor( (2^(p-1) + sum_i k_i * s_i) / 2^p ), 0, max )
Floating kernels (i32x1, f32x1..f32x4, vertical_f32): oracle = the sequential sum `ss = 0.0; ss += s_i as f64 * k_i` in window order
written out in the harness (the kernels use exactly this association: bit-exact comparison), followed by `as f32`
(f32 kernels) or "round to nearest, ties away from zero, saturating, NaN -> 0" (i32x1).
"""
import k7_kernels

SUPPORT = k7_kernels.SUPPORT
D = "src/convolution/"
P_INT = ["C01", "C03", "C05", "C10", "C18"]
P_FLT = ["C01", "C03", "C05"]

HARNESSES = []


def H(name, bound, claim, props, tier=None, covers=0, timeout=900):
    h = dict(name=name, kind="bounded", bound=bound, claim=claim, props=props, timeout=timeout)
    if covers:
        h["covers"] = covers
    if tier:
        h["tier"] = tier
    HARNESSES.append(h)


# ------------------------------------------------------------------------------------------------------------------------------
# horizontal integer kernels: 4-pixel source line -> 2 destination pixels (+ 1 spare), every channel against the oracle
# ------------------------------------------------------------------------------------------------------------------------------
def horiz_int_module(tag, pix, comp, nch, norm_fn, oracle, tables, fixed_px, fixed_taps, tap_ty, fixed_p):
    """tables: [(name, precision, windows-literal, cover-expr or None, tier)]"""
    ch = range(nch)
    src_ctor = ", ".join("%s::new(sp[%d])" % (pix, i) for i in range(4))
    line = lambda c: "[" + ", ".join("sp[%d][%d]" % (i, c) for i in range(4)) + "]"
    code = """
    use crate::convolution::optimisations::fv_norm::*;
    use crate::images::{TypedImage, TypedImageRef};

    /// 4 x 1 source (exactly sized: a read past the line is a CBMC bounds failure) -> 2 x 1 destination + 1 spare pixel.
    /// The destination starts with arbitrary (stale) content.
    fn run(sp: [[%(comp)s; %(n)d]; 4], n: &%(norm_ty)s) -> (%(comp)s, %(comp)s) {
        let src: [%(pix)s; 4] = [%(src_ctor)s];
        let stale: [[%(comp)s; %(n)d]; 3] = kani::any();
        let mut dst = [%(pix)s::new(stale[0]), %(pix)s::new(stale[1]), %(pix)s::new(stale[2])];
        {
            let s = TypedImageRef::new(4, 1, &src).unwrap();
            let mut d = TypedImage::from_pixels_slice(2, 1, &mut dst).unwrap();
            horiz_convolution(&s, &mut d, 0, n);
        }
%(asserts)s
        (dst[0].0[0], dst[1].0[%(n)d - 1])
    }
""" % dict(comp=comp, n=nch, pix=pix, src_ctor=src_ctor, norm_ty="Normalizer16" if comp == "u8" else "Normalizer32",
           asserts="\n".join(
               ["        assert!(dst[%d].0[%d] == %s(n, %d, &%s));" % (w, c, oracle, w, line(c)) for w in range(2) for c in ch] +
               ["        assert!(dst[2].0[%d] == stale[2][%d]);      // spare pixel untouched" % (c, c) for c in ch] +
               ["        assert!(src[%d].0[%d] == sp[%d][%d]);" % (i, c, i, c) for i in (0, 3) for c in ch]))
    for (name, prec, wins, cover, tier) in tables:
        code += """
    #[kani::proof]
    #[kani::unwind(6)]
    fn k10_%s_taps_%s() {
        let sp: [[%s; %d]; 4] = kani::any();
        let n = %s(%d, &%s);
        let r = run(sp, &n);
        kani::cover!(%s);
    }
""" % (tag, name, comp, nch, norm_fn, prec, wins, cover)
    code += """
    #[kani::proof]
    #[kani::unwind(6)]
    fn k10_%s_pixels_fixed_any_taps() {
        let k: [%s; 5] = kani::any();
        let n = %s(%d, &%s);
        let r = run(%s, &n);
        kani::cover!(r.0 == 3 && r.1 == 250);
    }
""" % (tag, tap_ty, norm_fn, fixed_p, fixed_taps, fixed_px)
    return dict(file=D + "%s/native.rs" % tag, name="fv_k10_%s" % tag, code=code)


# Normalizer16 tables: (name, precision, windows, cover, tier).  Two windows each: the two destination pixels use different tables.
T16 = [
    ("smooth_sharpen", 14, "[(0, &[4096, 8192, 4096]), (1, &[-1639, 19661, -1638])]", "r.0 == 255 && r.1 == 0", None),
    ("extreme", 8, "[(2, &[30000, -29744]), (0, &[-32768, 32767, 257])]", "r.0 == 255 && r.1 == 1", "thorough"),
    ("p21", 21, "[(0, &[32767, 32767]), (3, &[-32768])]", "r.0 == 8", "thorough"),
]
# Normalizer32 tables: p = 31 is what Normalizer32::new yields for a maximal weight of 0.5 (k = w * 2^31)
T32 = [
    ("smooth_sharpen", 31, "[(0, &[536870912, 1073741824, 536870912]), (1, &[-214748365, 2147483647, -214748365])]", "r.0 == 65535 && r.1 == 0", None),
    ("extreme", 45, "[(0, &[2147483647, 2147483647, -2147483648]), (2, &[-2147483648, 2147483647])]", "r.0 == 8 && r.1 == 1", "thorough"),
]

MODS = []


def add_horiz(tag, pix, comp, nch, tables, fixed_px):
    wide = comp == "u16"
    MODS.append(horiz_int_module(tag, pix, comp, nch, "fv_norm32" if wide else "fv_norm16", "fv_oracle32" if wide else "fv_oracle16",
                                 tables, fixed_px, "[(0, &[k[0], k[1], k[2]]), (2, &[k[3], k[4]])]", "i32" if wide else "i16",
                                 30 if wide else 14))
    for (name, prec, wins, cover, tier) in tables:
        H("k10_%s_taps_%s" % (tag, name),
          "%s 4x1 -> 2x1, tap table '%s' (precision %d, windows %s), ALL pixel values, arbitrary stale destination" % (pix, name, prec, wins),
          "%s horizontal kernel == fx on every channel for every pixel value; spare destination pixel and source untouched; "
          "every destination pixel assigned (result independent of the stale content); row reads in bounds" % tag,
          P_INT, tier=tier, covers=1)
    H("k10_%s_pixels_fixed_any_taps" % tag,
      "%s pixel line %s, ALL %s taps (3 + 2), precision %d" % (pix, fixed_px, "i32" if wide else "i16", 30 if wide else 14),
      "%s horizontal kernel == fx on every channel for every tap value (no accumulator overflow)" % tag,
      ["C01", "C03", "C10", "C18"], tier="thorough")


add_horiz("u8x2", "U8x2", "u8", 2, T16, "[[255, 0], [0, 255], [17, 128], [200, 1]]")
add_horiz("u8x3", "U8x3", "u8", 3, T16, "[[255, 0, 3], [0, 255, 77], [17, 128, 254], [200, 1, 100]]")

add_horiz("u16x2", "U16x2", "u16", 2, T32, "[[65535, 0], [1, 40000], [40000, 256], [9, 65535]]")
add_horiz("u16x3", "U16x3", "u16", 3, T32, "[[65535, 0, 3], [1, 40000, 77], [40000, 256, 65534], [9, 65535, 100]]")
add_horiz("u16x4", "U16x4", "u16", 4, T32, "[[65535, 0, 3, 1000], [1, 40000, 77, 0], [40000, 256, 65534, 65535], [9, 65535, 100, 32768]]")



# ------------------------------------------------------------------------------------------------------------------------------
# vertical kernels: (DW+1) x 3 source -> DW x 2 destination (+ 1 spare pixel), column offset 0 / 1
# ------------------------------------------------------------------------------------------------------------------------------
def vert_run(pix, comp, nch, dw, norm_ty, oracle, cmp="=="):
    """`fn run(sp, n, offset)`: sp[r] = the components of source row r.  oracle(r, [e0, e1, e2]) -> rust expression."""
    sw = dw + 1
    px = (lambda e: "%s::new(%s)" % (pix, e[0])) if nch == 1 else (lambda e: "%s::new([%s])" % (pix, ", ".join(e)))
    get = (lambda a, i, c: "%s[%d].0" % (a, i)) if nch == 1 else (lambda a, i, c: "%s[%d].0[%d]" % (a, i, c))
    src = ",\n            ".join(px(["sp[%d][%d]" % (r, x * nch + c) for c in range(nch)]) for r in range(3) for x in range(sw))
    nd = 2 * dw + 1
    dst = ",\n            ".join(px(["stale[%d]" % (i * nch + c) for c in range(nch)]) for i in range(nd))
    asserts = []
    for r in range(2):
        for x in range(dw):
            for c in range(nch):
                col = ["sp[%d][(o + %d) * %d + %d]" % (rr, x, nch, c) for rr in range(3)]
                asserts.append("        assert!(%s == %s);" % (get("dst", r * dw + x, c), oracle(r, col)))
    for c in range(nch):
        asserts.append("        assert!(%s == stale[%d]);      // spare pixel untouched" % (get("dst", 2 * dw, c), 2 * dw * nch + c))
    for (r, x) in ((0, 0), (2, sw - 1)):
        for c in range(nch):
            asserts.append("        assert!(%s == sp[%d][%d]);" % (get("src", r * sw + x, c), r, x * nch + c))
    return """
    /// %(sw)d x 3 source (exactly sized) -> %(dw)d x 2 destination + 1 spare pixel; the destination starts with arbitrary content;
    /// every destination component is compared with the oracle over its source column (so none depends on the stale content).
    fn run(sp: [[%(comp)s; %(sc)d]; 3], n: &%(norm_ty)s, offset: u32) {
        let src: [%(pix)s; %(ns)d] = [
            %(src)s];
        let stale: [%(comp)s; %(nst)d] = [%(anys)s];
        let mut dst: [%(pix)s; %(nd)d] = [
            %(dst)s];
        {
            let s = TypedImageRef::new(%(sw)d, 3, &src).unwrap();
            let mut d = TypedImage::from_pixels_slice(%(dw)d, 2, &mut dst).unwrap();
            vert_convolution(&s, &mut d, offset, n);
        }
        let o = offset as usize;
%(asserts)s
    }
    fn any_rows() -> [[%(comp)s; %(sc)d]; 3] {
        [%(anyrows)s]
    }
""" % dict(sw=sw, dw=dw, comp=comp, sc=sw * nch, norm_ty=norm_ty, pix=pix, ns=3 * sw, src=src, nst=nd * nch,
           anys=", ".join(["kani::any()"] * (nd * nch)), nd=nd, dst=dst, asserts="\n".join(asserts),
           anyrows=",\n         ".join("[" + ", ".join(["kani::any()"] * (sw * nch)) + "]" for _ in range(3)))


VU16 = D + "vertical_u16/native.rs"
ORC32 = lambda r, col: "fv_oracle32(n, %d, &[%s])" % (r, ", ".join(col))
VHEAD = """
    use crate::convolution::optimisations::fv_norm::*;
    use crate::images::{TypedImage, TypedImageRef};
    use crate::pixels::*;
"""
# taps with few set bits (the cost of a harness grows with the set bits of the constants x the number of outputs; the exact-value
# relation for 'dirty' taps is carried by the tail-only harness and by the horizontal kernels)
VT32 = "fv_norm32(30, &[(0, &[268435456, 805306368]), (1, &[-134217728, 1207959552])])"
MODS.append(dict(file=VU16, name="fv_k10_vu16_x4w5", code=VHEAD + vert_run("U16x4", "u16", 4, 5, "Normalizer32", ORC32) + """
    #[kani::proof]
    #[kani::unwind(18)]
    fn k10_vertical_u16_x4_w5_chunk_and_tail() {
        let n = %s;
        let sp = any_rows();
        run(sp, &n, 0);
        run(sp, &n, 1);
    }
""" % VT32))
H("k10_vertical_u16_x4_w5_chunk_and_tail",
  "U16x4 6x3 -> 5x2 (20 components per row: one 16-component chunk + 4-component tail), column offset 0 and 1, tap table (0.25, 0.75 | -0.125, 1.125) at precision 30, ALL pixel values, arbitrary stale destination",
  "vertical u16 kernel == fx over the source column for every component, in the chunked loop and in the tail; result independent of the stale destination; spare pixel and source untouched; reads in bounds",
  P_INT)


MODS.append(dict(file=VU16, name="fv_k10_vu16_x2w2", code=VHEAD + vert_run("U16x2", "u16", 2, 2, "Normalizer32", ORC32) + """
    #[kani::proof]
    #[kani::unwind(6)]
    fn k10_vertical_u16_x2_w2_tail_only() {
        let n = fv_norm32(30, &[(0, &[268435456, 805306368]), (1, &[-107374182, 1288490188])]);
        let offset: u32 = kani::any();
        kani::assume(offset <= 1);
        run(any_rows(), &n, offset);
    }
"""))
H("k10_vertical_u16_x2_w2_tail_only", "U16x2 3x3 -> 2x2", "tail only", P_INT)
MODS[-2]["code"] += """
    #[kani::proof]
    #[kani::unwind(18)]
    fn k10_vertical_u16_x4_w5_o0() {
        let n = %s;
        run(any_rows(), &n, 0);
    }
""" % VT32
H("k10_vertical_u16_x4_w5_o0", "exp", "exp", P_INT)


# ------------------------------------------------------------------------------------------------------------------------------
# floating kernels (i32x1, f32x1..f32x4, vertical_f32): Coefficients built concretely, oracle = the sequential sum in window order
# ------------------------------------------------------------------------------------------------------------------------------
FLT = dict(file=D + "mod.rs", name="fv_k10_flt", vis="pub(crate) ", code="""
    /// window_size weights per window (only the first `size` of each window are meaningful; the rest is a trap value)
    pub(crate) fn fv_coeffs(window_size: usize, values: &[f64], bounds: &[(u32, u32)]) -> Coefficients {
        let mut b = Vec::with_capacity(bounds.len());
        for (start, size) in bounds.iter() {
            b.push(Bound { start: *start, size: *size });
        }
        Coefficients { values: values.to_vec(), window_size, bounds: b }
    }
    /// the convolution formula in floating point: the sequential sum in window order, starting from 0.0
    pub(crate) fn fv_fsum(px: &[f64], ks: &[f64]) -> f64 {
        let mut ss = 0.0f64;
        let mut i = 0;
        while i < ks.len() {
            ss += px[i] * ks[i];
            i += 1;
        }
        ss
    }
    pub(crate) fn fv_same(a: f32, b: f32) -> bool {
        a == b || (a != a && b != b)
    }
    /// r is `ss` rounded to the nearest integer (ties away from zero), saturated to the i32 range, NaN -> 0
    pub(crate) fn fv_round_sat(ss: f64, r: i32) -> bool {
        if ss != ss { return r == 0; }
        if ss >= 2147483647.5 { return r == i32::MAX; }
        if ss <= -2147483648.5 { return r == i32::MIN; }
        let d = r as f64 - ss;
        if d > 0.5 || d < -0.5 { return false; }
        if d == 0.5 { return ss > 0.0; }
        if d == -0.5 { return ss < 0.0; }
        true
    }
""")
TRAP = "1.0e30"
FHEAD = """
    use crate::convolution::fv_k10_flt::*;
    use crate::images::{TypedImage, TypedImageRef};
    use crate::pixels::*;
"""


def flit(x):
    s = repr(float(x))
    return s


def coeffs_literal(windows):
    ws = max(len(w) for (_, w) in windows) + 1
    vals = []
    for (_, w) in windows:
        vals += [flit(v) for v in w] + [TRAP] * (ws - len(w))
    return "fv_coeffs(%d, &[%s], &[%s])" % (ws, ", ".join(vals), ", ".join("(%d, %d)" % (st, len(w)) for (st, w) in windows))


def horiz_flt_run(pix, comp, nch, L, windows, check):
    """L x 1 source -> len(windows) x 1 destination + spare.  check(dst_expr, sum_expr) -> assertion condition."""
    px = (lambda e: "%s::new(%s)" % (pix, e[0])) if nch == 1 else (lambda e: "%s::new([%s])" % (pix, ", ".join(e)))
    get = (lambda a, i, c: "%s[%d].0" % (a, i)) if nch == 1 else (lambda a, i, c: "%s[%d].0[%d]" % (a, i, c))
    nw = len(windows)
    src = ", ".join(px(["sp[%d]" % (x * nch + c) for c in range(nch)]) for x in range(L))
    dst = ", ".join(px(["stale[%d]" % (i * nch + c) for c in range(nch)]) for i in range(nw + 1))
    asserts = []
    for w, (st, ks) in enumerate(windows):
        for c in range(nch):
            pxs = ", ".join("sp[%d] as f64" % ((st + i) * nch + c) for i in range(len(ks)))
            asserts.append("        assert!(%s);" % check(get("dst", w, c), "fv_fsum(&[%s], &[%s])" % (pxs, ", ".join(flit(k) for k in ks))))
    for c in range(nch):
        asserts.append("        assert!(%s.to_bits() == stale[%d].to_bits());      // spare pixel untouched" % (get("dst", nw, c), nw * nch + c)
                       if comp == "f32" else "        assert!(%s == stale[%d]);      // spare pixel untouched" % (get("dst", nw, c), nw * nch + c))
    return """
    {
        let sp: [%(comp)s; %(ns)d] = [%(anys)s];
        let src: [%(pix)s; %(L)d] = [%(src)s];
        let stale: [%(comp)s; %(nst)d] = [%(anyst)s];
        let mut dst: [%(pix)s; %(nd)d] = [%(dst)s];
        let coeffs = %(coeffs)s;
        {
            let s = TypedImageRef::new(%(L)d, 1, &src).unwrap();
            let mut d = TypedImage::from_pixels_slice(%(nw)d, 1, &mut dst).unwrap();
            horiz_convolution(&s, &mut d, 0, &coeffs);
        }
%(asserts)s
    }
""" % dict(comp=comp, ns=L * nch, anys=", ".join(["kani::any()"] * (L * nch)), pix=pix, L=L, src=src, nst=(nw + 1) * nch,
           anyst=", ".join(["kani::any()"] * ((nw + 1) * nch)), nd=nw + 1, dst=dst, coeffs=coeffs_literal(windows), nw=nw,
           asserts="\n".join(asserts))


CHK_F32 = lambda d, e: "fv_same(%s, %s as f32)" % (d, e)
CHK_I32 = lambda d, e: "fv_round_sat(%s, %s)" % (e, d)
W_SMOOTH_SHARPEN = [(0, [0.25, 0.5, 0.25]), (1, [-0.125, 1.25, -0.125])]
W_DIRTY = [(2, [-0.1, 1.2]), (0, [0.3333333333333333, 0.3333333333333333, 0.3333333333333333])]
W_HUGE = [(0, [1.5, 1.5, -0.75]), (3, [1.0e300])]
W9 = [(0, [0.0625, 0.0625, 0.125, 0.125, 0.25, 0.125, 0.125, 0.0625, 0.0625]), (2, [-0.125, 1.25, -0.125])]


def add_flt_h(tag, pix, comp, nch, case, L, windows, unwind, props, tier=None, extra=""):
    chk = CHK_F32 if comp == "f32" else CHK_I32
    name = "k10_%s_%s" % (tag, case)
    MODS.append(dict(file=D + "%s/native.rs" % tag, name="fv_%s" % name, code=FHEAD + """
    #[kani::proof]
    #[kani::unwind(%d)]
    fn %s() %s
""" % (unwind, name, horiz_flt_run(pix, comp, nch, L, windows, chk).strip())))
    H(name, "%s %dx1 -> %dx1, weights %s (window_size one more than the longest window, unused slots hold a trap value %s), ALL pixel values, arbitrary stale destination"
      % (pix, L, len(windows), windows, TRAP),
      ("%s horizontal kernel == the sequential f64 sum in window order converted with `as f32`, bit-exact (or both NaN), on every channel" % tag if comp == "f32" else
       "i32x1 horizontal kernel == the sequential f64 sum in window order, rounded to nearest (ties away from zero) and saturated to i32") +
      "; weights beyond the window's size unused; spare pixel untouched; every destination pixel assigned; reads in bounds", props, tier=tier)


add_flt_h("i32x1", "I32", "i32", 1, "h_smooth_sharpen", 4, W_SMOOTH_SHARPEN, 6, P_FLT)
add_flt_h("i32x1", "I32", "i32", 1, "h_huge_saturating", 4, W_HUGE, 6, P_FLT, tier="thorough")
add_flt_h("f32x1", "F32", "f32", 1, "smooth_sharpen", 4, W_SMOOTH_SHARPEN, 10, P_FLT, tier="thorough")
add_flt_h("f32x1", "F32", "f32", 1, "nine_taps_chunk_and_rest", 10, W9, 11, P_FLT)
add_flt_h("f32x2", "F32x2", "f32", 2, "smooth_sharpen", 4, W_SMOOTH_SHARPEN, 6, P_FLT)
add_flt_h("f32x3", "F32x3", "f32", 3, "smooth_sharpen", 4, W_SMOOTH_SHARPEN, 6, P_FLT)
add_flt_h("f32x4", "F32x4", "f32", 4, "smooth_sharpen", 4, W_SMOOTH_SHARPEN, 6, P_FLT)
add_flt_h("f32x2", "F32x2", "f32", 2, "dirty_weights", 4, W_DIRTY, 6, P_FLT, tier="thorough")

# ---- experiments (temporary)
MODS[2]["code"] += """
    fn orc(n: &Normalizer32, chunk: usize, px: &[u16]) -> u16 {
        let c = &n.chunks()[chunk];
        let mut acc: i64 = 1i64 << (n.precision() - 1);
        for (i, &k) in c.values().iter().enumerate() {
            acc += px[c.start as usize + i] as i64 * (k as i64);
        }
        n.clip(acc)
    }
    fn runx(sp: [[u16; 2]; 3], n: &Normalizer32, own: bool) {
        let src: [U16x2; 3] = [U16x2::new(sp[0]), U16x2::new(sp[1]), U16x2::new(sp[2])];
        let stale: [[u16; 2]; 2] = kani::any();
        let mut dst = [U16x2::new(stale[0]), U16x2::new(stale[1])];
        {
            let s = TypedImageRef::new(3, 1, &src).unwrap();
            let mut d = TypedImage::from_pixels_slice(1, 1, &mut dst).unwrap();
            horiz_convolution(&s, &mut d, 0, n);
        }
        if own {
            assert!(dst[0].0[0] == orc(n, 0, &[sp[0][0], sp[1][0], sp[2][0]]));
            assert!(dst[0].0[1] == orc(n, 0, &[sp[0][1], sp[1][1], sp[2][1]]));
        } else {
            assert!(dst[0].0[0] == fv_oracle32(n, 0, &[sp[0][0], sp[1][0], sp[2][0]]));
            assert!(dst[0].0[1] == fv_oracle32(n, 0, &[sp[0][1], sp[1][1], sp[2][1]]));
        }
    }
    #[kani::proof]
    #[kani::unwind(6)]
    fn k10_x1() { runx(kani::any(), &fv_norm32(31, &[(1, &[-214748365, 2147483647])]), false); }
    #[kani::proof]
    #[kani::unwind(6)]
    fn k10_x2() { runx(kani::any(), &fv_norm32(31, &[(1, &[-214748365, 2147483647])]), true); }
    #[kani::proof]
    #[kani::unwind(6)]
    fn k10_x3() { runx(kani::any(), &fv_norm32(31, &[(1, &[536870912, 1073741824])]), false); }
    #[kani::proof]
    #[kani::unwind(6)]
    fn k10_x4() { runx(kani::any(), &fv_norm32(30, &[(1, &[-107374182, 1288490188])]), false); }
"""
MODS[2]["code"] += """
    #[kani::proof]
    #[kani::unwind(6)]
    fn k10_x5() { runx(kani::any(), &fv_norm32(30, &[(1, &[-134217728, 1207959552])]), false); }
    #[kani::proof]
    #[kani::unwind(6)]
    fn k10_x6() { runx(kani::any(), &fv_norm32(30, &[(1, &[107374182, 966367642])]), false); }
    #[kani::proof]
    #[kani::unwind(6)]
    fn k10_x7() { runx(kani::any(), &fv_norm32(30, &[(1, &[268435456, 805306368])]), false); }
"""
for x in ("x5", "x6", "x7"):
    H("k10_" + x, "exp", "exp", P_INT)

FUNCTIONS = [dict(file=D + "%s/native.rs" % t, fn="horiz_convolution") for t in ("u8x2", "u8x3", "u16x2", "u16x3", "u16x4")] + [
    dict(file=VU16, fn="vert_convolution"), dict(file=VU16, fn="convolution_by_u16"), dict(file=VU16, fn="convolution_by_chunks")] + [
    dict(file=D + "%s/native.rs" % t, fn="horiz_convolution") for t in ("i32x1", "f32x1", "f32x2", "f32x3", "f32x4")] + [
    dict(file=D + "f32x1/native.rs", fn="convolution_by_chunks")]

UNITS = [dict(
    id="K10",
    title="the remaining native kernels (u8x2, u8x3, u16x2..4, vertical u16, i32, f32x1..4, vertical f32) compute the convolution formula; reads inside the window; frame",
    assumptions=["bounded / sampled: 'kernel == formula' is checked on concrete tap tables x ALL pixel values and on concrete pixel rows x ALL tap values "
                 "(SAT does not finish when both are symbolic); sizes, window starts and precision are concrete"],
    kani=dict(functions=FUNCTIONS, modules=[SUPPORT, FLT] + MODS, harnesses=HARNESSES),
)]
