"""Shared cfg(kani) support module appended to src/lib.rs of the scratch copy.
It contains no repository logic: only symbolic-input helpers and a
dimension-only ImageView used to feed validation functions."""

SUPPORT_MODULE = dict(file="src/lib.rs", name="fv_support", vis="pub(crate) ", code="""
    use crate::pixels::*;

    /// An ImageView that only reports dimensions (rows are never produced).
    pub struct FvDims { pub w: u32, pub h: u32 }
    unsafe impl crate::ImageView for FvDims {
        type Pixel = U8;
        fn width(&self) -> u32 { self.w }
        fn height(&self) -> u32 { self.h }
        fn iter_rows(&self, _start_row: u32) -> impl Iterator<Item = &[U8]> { core::iter::empty() }
    }

    pub fn any_pixel_type() -> PixelType {
        let k: u8 = kani::any();
        match k {
            0 => PixelType::U8, 1 => PixelType::U8x2, 2 => PixelType::U8x3, 3 => PixelType::U8x4,
            4 => PixelType::U16, 5 => PixelType::U16x2, 6 => PixelType::U16x3, 7 => PixelType::U16x4,
            8 => PixelType::I32, 9 => PixelType::F32, 10 => PixelType::F32x2, 11 => PixelType::F32x3,
            _ => PixelType::F32x4,
        }
    }

    pub fn align_of_pixel_type(pt: PixelType) -> usize {
        match pt {
            PixelType::U8 | PixelType::U8x2 | PixelType::U8x3 | PixelType::U8x4 => 1,
            PixelType::U16 | PixelType::U16x2 | PixelType::U16x3 | PixelType::U16x4 => 2,
            _ => 4,
        }
    }

    #[repr(C, align(16))]
    pub struct Aligned<const N: usize>(pub [u8; N]);
""")
