"""G3 — image constructors: accepted iff the buffer is large enough (size computed
without overflow) and aligned; accepted images report the requested size.

Oracle (statement of C04, mathematical integers):
    Ok  <=>  len >= w*h*size_of(pixel)   and   buffer aligned for the pixel type
"""
from common import SUPPORT_MODULE

FI = "src/images/image.rs"
FT = "src/images/typed_image.rs"

UNIT = dict(
    id="G3",
    title="Image/ImageRef/TypedImage/TypedImageRef constructors accept exactly the large-enough, aligned buffers",
    assumptions=["an EMPTY buffer is accepted at any address (slice::align_to returns an empty head for an empty slice); the oracle "
                 "therefore requires alignment only of non-empty buffers - a first version of the check demanded alignment of "
                 "empty buffers too and was corrected (false alarm, see DESIGN.md)",
                 "buffers are <= 64 bytes long in the harness; the size comparison itself ranges over all u32 x u32 x pixel sizes, "
                 "which is where the arithmetic lives (buffer length only enters as the right-hand side of one comparison)"],
    kani=dict(
        functions=[
            dict(file=FI, fn="new", within=r"impl<'a> ImageRef<'a>"),
            dict(file=FI, fn="from_vec_u8"),
            dict(file=FI, fn="from_slice_u8"),
            dict(file=FT, fn="new", within=r"impl<'a, P> TypedImageRef<'a, P>"),
            dict(file=FT, fn="from_buffer", within=r"impl<'a, P> TypedImageRef<'a, P>"),
            dict(file=FT, fn="from_pixels"),
            dict(file=FT, fn="from_pixels_slice"),
            dict(file=FT, fn="from_buffer", within=r"impl<'a, P: InnerPixel> TypedImage<'a, P>"),
        ],
        modules=[SUPPORT_MODULE, dict(file=FI, name="fv_g3", code="""
    use crate::fv_support::*;

    fn need(w: u32, h: u32, size: usize) -> u128 { w as u128 * h as u128 * size as u128 }

    #[kani::proof]
    fn g3_image_ref_new() {
        let store = Aligned::<64>([0u8; 64]);
        let (off, len): (usize, usize) = (kani::any(), kani::any());
        kani::assume(off < 8 && len <= 56);
        let buf = &store.0[off..off + len];
        let (w, h): (u32, u32) = (kani::any(), kani::any());
        let pt = any_pixel_type();
        let aligned = off % align_of_pixel_type(pt) == 0 || len == 0;
        let r = ImageRef::new(w, h, buf, pt);
        kani::cover!(r.is_ok() && w > 1);
        kani::cover!(r.is_err());
        assert!(r.is_ok() == (len as u128 >= need(w, h, pt.size()) && aligned));
        if let Ok(img) = r {
            assert!(img.width() == w && img.height() == h && img.pixel_type() == pt);
            assert!(img.buffer().len() == len);
        }
    }

    #[kani::proof]
    fn g3_image_from_slice_u8() {
        let mut store = Aligned::<64>([0u8; 64]);
        let (off, len): (usize, usize) = (kani::any(), kani::any());
        kani::assume(off < 8 && len <= 56);
        let buf = &mut store.0[off..off + len];
        let (w, h): (u32, u32) = (kani::any(), kani::any());
        let pt = any_pixel_type();
        let aligned = off % align_of_pixel_type(pt) == 0 || len == 0;
        let r = Image::from_slice_u8(w, h, buf, pt);
        kani::cover!(r.is_ok() && w > 1);
        assert!(r.is_ok() == (len as u128 >= need(w, h, pt.size()) && aligned));
        if let Ok(img) = r {
            assert!(img.width() == w && img.height() == h && img.pixel_type() == pt);
        }
    }

    #[kani::proof]
    fn g3_image_from_vec_u8() {
        let len: usize = kani::any();
        kani::assume(len <= 16);
        let v = vec![0u8; len];
        let (w, h): (u32, u32) = (kani::any(), kani::any());
        let pt = any_pixel_type();
        // a Vec<u8> allocation carries no alignment promise: only the size clause is checked,
        // and only for byte-aligned pixel types is acceptance fully determined
        let r = Image::from_vec_u8(w, h, v, pt);
        if r.is_ok() { assert!(len as u128 >= need(w, h, pt.size())); }
        if align_of_pixel_type(pt) == 1 { assert!(r.is_ok() == (len as u128 >= need(w, h, pt.size()))); }
        kani::cover!(r.is_ok() && w > 1);
    }
"""), dict(file=FT, name="fv_g3t", code="""
    use crate::fv_support::*;
    use crate::pixels::*;

    fn need(w: u32, h: u32, size: usize) -> u128 { w as u128 * h as u128 * size as u128 }

    fn typed_ref_from_buffer<P: InnerPixel>(align: usize) {
        let store = Aligned::<64>([0u8; 64]);
        let (off, len): (usize, usize) = (kani::any(), kani::any());
        kani::assume(off < 8 && len <= 56);
        let buf = &store.0[off..off + len];
        let (w, h): (u32, u32) = (kani::any(), kani::any());
        let r = TypedImageRef::<P>::from_buffer(w, h, buf);
        kani::cover!(r.is_ok() && w > 1);
        // from_buffer hands the aligned middle part of the buffer to new(): whole pixels only
        let avail = (len / P::size()) as u128;
        assert!(r.is_ok() == ((off % align == 0 || len == 0) && avail >= w as u128 * h as u128));
        if let Ok(img) = r { assert!(img.width() == w && img.height() == h); }
    }

    fn typed_from_buffer<P: InnerPixel>(align: usize) {
        let mut store = Aligned::<64>([0u8; 64]);
        let (off, len): (usize, usize) = (kani::any(), kani::any());
        kani::assume(off < 8 && len <= 56);
        let buf = &mut store.0[off..off + len];
        let (w, h): (u32, u32) = (kani::any(), kani::any());
        let r = TypedImage::<P>::from_buffer(w, h, buf);
        kani::cover!(r.is_ok() && w > 1);
        assert!(r.is_ok() == ((off % align == 0 || len == 0) && len as u128 >= need(w, h, P::size())));
        if let Ok(img) = r { assert!(img.width() == w && img.height() == h); }
    }

    #[kani::proof] fn g3_typed_ref_from_buffer_u8x3() { typed_ref_from_buffer::<U8x3>(1) }
    #[kani::proof] fn g3_typed_ref_from_buffer_u16x2() { typed_ref_from_buffer::<U16x2>(2) }
    #[kani::proof] fn g3_typed_ref_from_buffer_f32x4() { typed_ref_from_buffer::<F32x4>(4) }
    #[kani::proof] fn g3_typed_from_buffer_u8x3() { typed_from_buffer::<U8x3>(1) }
    #[kani::proof] fn g3_typed_from_buffer_u16x2() { typed_from_buffer::<U16x2>(2) }
    #[kani::proof] fn g3_typed_from_buffer_f32x4() { typed_from_buffer::<F32x4>(4) }

    #[kani::proof]
    fn g3_typed_new_and_pixels() {
        let mut px = [U8x4::new([0; 4]); 12];
        let len: usize = kani::any();
        kani::assume(len <= 12);
        let (w, h): (u32, u32) = (kani::any(), kani::any());
        let r = TypedImageRef::new(w, h, &px[..len]);
        kani::cover!(r.is_ok() && w > 1);
        assert!(r.is_ok() == (len as u128 >= w as u128 * h as u128));
        if let Ok(img) = r { assert!(img.width() == w && img.height() == h); }
        let r2 = TypedImage::from_pixels_slice(w, h, &mut px[..len]);
        assert!(r2.is_ok() == (len as u128 >= w as u128 * h as u128));
        if let Ok(img) = r2 { assert!(img.width() == w && img.height() == h); }
    }

    #[kani::proof]
    fn g3_typed_from_pixels_vec() {
        let len: usize = kani::any();
        kani::assume(len <= 4);
        let mut v = vec![U16::new(0); 4];
        v.truncate(len);
        let (w, h): (u32, u32) = (kani::any(), kani::any());
        let r = TypedImage::from_pixels(w, h, v);
        kani::cover!(r.is_ok() && w > 1);
        assert!(r.is_ok() == (len as u128 >= w as u128 * h as u128));
    }
""")],
        harnesses=[
            dict(name="g3_image_ref_new", kind="complete", covers=2, timeout=600,
                 claim="ImageRef::new: Ok <=> len >= w*h*size (u128 oracle) and aligned; all u32 w,h, all 13 pixel types, all offsets 0..7"),
            dict(name="g3_image_from_slice_u8", kind="complete", covers=1, timeout=600,
                 claim="Image::from_slice_u8: same iff; accepted image reports w,h,type"),
            dict(name="g3_image_from_vec_u8", kind="complete", covers=1, timeout=600,
                 claim="Image::from_vec_u8: Ok => large enough; iff for byte-aligned pixel types"),
            dict(name="g3_typed_ref_from_buffer_u8x3", kind="complete", covers=1, timeout=600, claim="TypedImageRef::<U8x3>::from_buffer iff"),
            dict(name="g3_typed_ref_from_buffer_u16x2", kind="complete", covers=1, timeout=600, claim="TypedImageRef::<U16x2>::from_buffer iff"),
            dict(name="g3_typed_ref_from_buffer_f32x4", kind="complete", covers=1, timeout=600, claim="TypedImageRef::<F32x4>::from_buffer iff"),
            dict(name="g3_typed_from_buffer_u8x3", kind="complete", covers=1, timeout=600, claim="TypedImage::<U8x3>::from_buffer iff"),
            dict(name="g3_typed_from_buffer_u16x2", kind="complete", covers=1, timeout=600, claim="TypedImage::<U16x2>::from_buffer iff"),
            dict(name="g3_typed_from_buffer_f32x4", kind="complete", covers=1, timeout=600, claim="TypedImage::<F32x4>::from_buffer iff"),
            dict(name="g3_typed_new_and_pixels", kind="complete", covers=1, timeout=600,
                 claim="TypedImageRef::new / TypedImage::from_pixels_slice: Ok <=> len >= w*h"),
            dict(name="g3_typed_from_pixels_vec", kind="complete", covers=1, timeout=600, claim="TypedImage::from_pixels: Ok <=> len >= w*h"),
        ],
    ),
)
