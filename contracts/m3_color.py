"""M3 — colour mapping tables (C16): table element contract for an ARBITRARY transfer function,
alpha never table-mapped, mismatches rejected.

Oracle (statement of C16): entry i == round(f(i / (SIZE-1)) * max) converted to the destination depth
(saturating); alpha components are depth-converted (M1) and never looked up; mismatched sizes rejected.
The values of powf (sRGB / gamma curves) are outside the reach of the verifiers (N1).
"""
from common import SUPPORT_MODULE

F = "src/color/mod.rs"

CODE = """
    use crate::images::{TypedImage, TypedImageRef};

    // ---- table element: slice of MappingTable::new's closure body, for one symbolic index ----
    fn elem_u8(input: usize, y: f32) -> u8 { fv_slice_table_elem::<u8, 256>(input, &|_x| y) }
    fn elem_u16(input: usize, y: f32) -> u16 { fv_slice_table_elem::<u16, 256>(input, &|_x| y) }

    #[kani::proof]
    fn m3_elem_value() {
        let y: f32 = kani::any();
        kani::assume(y >= 0.0 && y <= 1.0);
        let i: usize = kani::any();
        kani::assume(i < 256);
        let e8 = elem_u8(i, y);
        let e16 = elem_u16(i, y);
        assert!(e8 as f32 == (y * 255.0).round());
        assert!(e16 as f32 == (y * 65535.0).round());
        if y == 0.0 { assert!(e8 == 0 && e16 == 0); }
        if y == 1.0 { assert!(e8 == 255 && e16 == 65535); }
    }

    #[kani::proof]
    fn m3_elem_monotone() {
        // f monotone => table monotone: f(x1) <= f(x2) gives entry1 <= entry2
        let (y1, y2): (f32, f32) = (kani::any(), kani::any());
        kani::assume(y1 >= 0.0 && y2 <= 1.0 && y1 <= y2);
        assert!(elem_u8(0, y1) <= elem_u8(1, y2));
        assert!(elem_u16(0, y1) <= elem_u16(1, y2));
    }

    #[kani::proof]
    fn m3_elem_argument() {
        // the argument handed to f: 0 for the first entry, 1 for the last, non-decreasing in between
        let (i, j): (usize, usize) = (kani::any(), kani::any());
        kani::assume(i <= j && j < 65536);
        let xi = fv_slice_table_arg::<65536>(i);
        let xj = fv_slice_table_arg::<65536>(j);
        assert!(xi <= xj && xi >= 0.0 && xj <= 1.0);
        assert!(fv_slice_table_arg::<65536>(0) == 0.0 && fv_slice_table_arg::<65536>(65535) == 1.0);
        assert!(fv_slice_table_arg::<256>(0) == 0.0 && fv_slice_table_arg::<256>(255) == 1.0);
        let (a, b): (usize, usize) = (kani::any(), kani::any());
        kani::assume(a <= b && b < 256);
        assert!(fv_slice_table_arg::<256>(a) <= fv_slice_table_arg::<256>(b));
    }

    // ---- rows: arbitrary table contents; alpha positions are depth-converted, colour positions looked up ----
    #[kani::proof]
    #[kani::unwind(10)]
    fn m3_rows_u8x4_to_u16x4() {
        let t = MappingTable::<u16, 256>(kani::any());
        let s: [u8; 8] = kani::any();
        let src = [U8x4::new([s[0], s[1], s[2], s[3]]), U8x4::new([s[4], s[5], s[6], s[7]])];
        let mut dst = [U16x4::new([1, 2, 3, 4]); 3];
        {
            let sv = TypedImageRef::new(2, 1, &src).unwrap();
            let dv = TypedImage::from_pixels_slice(2, 1, &mut dst).unwrap();
            t.map_image_typed(sv, dv);
        }
        for p in 0..2 {
            for c in 0..3 { assert!(dst[p].0[c] == t.0[s[p * 4 + c] as usize]); }
            let a: u16 = s[p * 4 + 3].into_component();
            assert!(dst[p].0[3] == a);
        }
        assert!(dst[2].0 == [1, 2, 3, 4]);
    }

    #[kani::proof]
    #[kani::unwind(10)]
    fn m3_rows_u8x2_inplace_and_u8x3() {
        let t = MappingTable::<u8, 256>(kani::any());
        let s: [u8; 6] = kani::any();
        let mut la = [U8x2::new([s[0], s[1]]), U8x2::new([s[2], s[3]]), U8x2::new([s[4], s[5]])];
        {
            let v = TypedImage::from_pixels_slice(3, 1, &mut la).unwrap();
            t.map_image_inplace_typed(v);
        }
        for p in 0..3 {
            assert!(la[p].0[0] == t.0[s[2 * p] as usize]);
            assert!(la[p].0[1] == s[2 * p + 1]);              // alpha untouched in place
        }
        let mut rgb = [U8x3::new([s[0], s[1], s[2]]), U8x3::new([s[3], s[4], s[5]])];
        {
            let v = TypedImage::from_pixels_slice(2, 1, &mut rgb).unwrap();
            t.map_image_inplace_typed(v);
        }
        for i in 0..6 { assert!(rgb[i / 3].0[i % 3] == t.0[s[i] as usize]); }   // no alpha: every component mapped
    }

    #[kani::proof]
    #[kani::unwind(10)]
    fn m3_rows_u16x2_to_u8x2_two_image() {
        // two-image path for 2-component pixels: alpha at EVERY pixel position (even and odd columns) is depth-converted
        let t = MappingTable::<u8, 256>(kani::any());
        let s: [u8; 6] = kani::any();
        let src = [U8x2::new([s[0], s[1]]), U8x2::new([s[2], s[3]]), U8x2::new([s[4], s[5]])];
        let mut dst = [U8x2::new([7, 7]); 4];
        {
            let sv = TypedImageRef::new(3, 1, &src).unwrap();
            let dv = TypedImage::from_pixels_slice(3, 1, &mut dst).unwrap();
            t.map_image_typed(sv, dv);
        }
        for p in 0..3 {
            assert!(dst[p].0[0] == t.0[s[2 * p] as usize]);
            assert!(dst[p].0[1] == s[2 * p + 1]);
        }
        assert!(dst[3].0 == [7, 7]);
    }

    // ---- dynamic entry point: mismatched sizes / component counts are rejected before anything is written ----
    #[kani::proof]
    #[kani::unwind(14)]
    fn m3_map_rejects_mismatch() {
        let tables = MappingTablesGroup {
            u8_u8: Box::new(MappingTable([1u8; 256])), u8_u16: Box::new(MappingTable([1u16; 256])),
            u16_u8: Box::new(MappingTable([1u8; 65536])), u16_u16: Box::new(MappingTable([1u16; 65536])),
        };
        let src = crate::images::Image::new(2, 1, PixelType::U8x3);
        let mut same = crate::images::Image::new(2, 1, PixelType::U8x3);
        let mut wider = crate::images::Image::new(3, 1, PixelType::U8x3);
        let mut taller = crate::images::Image::new(2, 2, PixelType::U8x3);
        let mut other_count = crate::images::Image::new(2, 1, PixelType::U8x4);
        let mut float = crate::images::Image::new(2, 1, PixelType::F32x3);
        assert!(PixelComponentMapper::map(&tables, &src, &mut wider) == Err(MappingError::DifferentDimensions));
        assert!(PixelComponentMapper::map(&tables, &src, &mut taller) == Err(MappingError::DifferentDimensions));
        assert!(PixelComponentMapper::map(&tables, &src, &mut other_count) == Err(MappingError::UnsupportedCombinationOfImageTypes));
        assert!(PixelComponentMapper::map(&tables, &src, &mut float) == Err(MappingError::UnsupportedCombinationOfImageTypes));
        assert!(wider.buffer()[0] == 0 && taller.buffer()[0] == 0 && other_count.buffer()[0] == 0);   // nothing written
        assert!(PixelComponentMapper::map(&tables, &src, &mut same).is_ok());
        assert!(same.buffer()[0] == 1 && same.buffer()[5] == 1);                                     // every component looked up
    }
"""


M3B = dict(file="src/color/mappers.rs", name="fv_m3b", code="""
    // documented sRGB transfer functions (IEC 61966-2-1): the linear segments and their thresholds
    #[kani::proof]
    #[kani::unwind(12)]
    fn m3_srgb_linear_segments() {
        // concrete sample points below the documented thresholds (a symbolic x makes SAT prove two f32 dividers equivalent: no answer
        // in 25 min); above the thresholds the functions call powf, which has no model (N1)
        const BELOW_04045: [f32; 8] = [0.0, 0.0001, 0.001, 0.0031308, 0.01, 0.02, 0.04, 0.040449];
        const BELOW_0031308: [f32; 8] = [0.0, 0.00001, 0.0001, 0.00031308, 0.001, 0.002, 0.003, 0.0031307];
        let mut i = 0;
        while i < 8 {
            assert!(srgb_to_linear(BELOW_04045[i]) == BELOW_04045[i] / 12.92);
            assert!(linear_to_srgb(BELOW_0031308[i]) == 12.92 * BELOW_0031308[i]);
            if i > 0 {
                assert!(srgb_to_linear(BELOW_04045[i - 1]) <= srgb_to_linear(BELOW_04045[i]));
                assert!(linear_to_srgb(BELOW_0031308[i - 1]) <= linear_to_srgb(BELOW_0031308[i]));
            }
            i += 1;
        }
    }
""")

UNIT = dict(
    id="M3",
    title="colour mapper: table element contract for an arbitrary transfer function; alpha depth-converted, never table-mapped",
    assumptions=["N1: that srgb/gamma transfer functions are monotone with f(0)=0, f(1)=1 is a statement about libm powf and is assumed; "
                 "the contract proves: monotone f => monotone table, f(0)=0 => T[0]=0, f(1)=1 => T[last]=max",
                 "table element computed on a slice (closure body of MappingTable::new lifted verbatim); iter_mut().enumerate().for_each applies it once per entry",
                 "rows: 2-3 pixels, ARBITRARY table contents (symbolic 256-entry tables)"],
    kani=dict(
        functions=[dict(file=F, fn="new", within=r"impl<Out, const SIZE: usize> MappingTable<Out, SIZE>"),
                   dict(file=F, fn="map_with_gaps"), dict(file=F, fn="map_with_gaps_inplace"), dict(file=F, fn="map"),
                   dict(file=F, fn="map_inplace"), dict(file=F, fn="map_image_typed"), dict(file=F, fn="map_image_inplace_typed")],
        modules=[SUPPORT_MODULE, M3B, dict(file=F, name="fv_m3", code=CODE, slices=[
            dict(name="fv_slice_table_elem<Out: PixelComponent + Zero + UpperBounded + FromF32 + Into<f32>, const SIZE: usize>",
                 file=F, fn="new", within=r"impl<Out, const SIZE: usize> MappingTable<Out, SIZE>",
                 stmts_from="let input_f32 =", stmts_to="*output =",
                 params="input: usize, map_func: &dyn Fn(f32) -> f32", ret="Out",
                 expr_of_assign="*output ="),
            dict(name="fv_slice_table_arg<const SIZE: usize>", file=F, fn="new", within=r"impl<Out, const SIZE: usize> MappingTable<Out, SIZE>",
                 stmts_from="let input_f32 =", stmts_to="*output =", params="input: usize", ret="f32", post="input_f32"),
        ])],
        harnesses=[
            dict(name="m3_elem_value", kind="complete", timeout=900, props=["C16"], claim="entry == round(y * max) for every function value y in [0,1] (u8 and u16 tables); y=0 -> 0, y=1 -> max"),
            dict(name="m3_elem_monotone", kind="complete", timeout=900, props=["C16"], claim="y1 <= y2 => entry(y1) <= entry(y2): a monotone transfer function gives a monotone table"),
            dict(name="m3_elem_argument", kind="complete", timeout=900, props=["C16"], claim="argument i/(SIZE-1): 0 at the first entry, 1 at the last, non-decreasing (256 and 65536 entry tables)"),
            dict(name="m3_srgb_linear_segments", kind="bounded", timeout=900, props=["C16"],
                 bound="8 sample points below each documented threshold (0.04045 / 0.0031308)",
                 claim="sRGB mapper: below the documented thresholds both transfer functions are the documented linear segments "
                       "(x/12.92, 12.92x), 0 maps to 0, monotone there; the power segments are N1"),
            dict(name="m3_rows_u16x2_to_u8x2_two_image", kind="bounded", timeout=1500, bound="3 pixels U8x2 -> U8x2 (two images), arbitrary 256-entry table, all contents",
                 claim="two-image path, 2-component pixels: colour looked up, alpha depth-converted at even and odd pixel positions; spare pixel untouched"),
            dict(name="m3_map_rejects_mismatch", kind="bounded", timeout=1500,
                 bound="U8x3 2x1 source against destinations 3x1, 2x2, U8x4 2x1, F32x3 2x1 and 2x1 U8x3; constant tables",
                 claim="PixelComponentMapper::map rejects different sizes / component counts / unsupported types before writing; accepts equal sizes"),
            dict(name="m3_rows_u8x4_to_u16x4", kind="bounded", timeout=1500, bound="2 pixels U8x4 -> U16x4, arbitrary 256-entry table, all contents",
                 claim="colour components are table look-ups, alpha is into_component (M1), nothing beyond the row written"),
            dict(name="m3_rows_u8x2_inplace_and_u8x3", kind="bounded", timeout=1500, bound="3 pixels U8x2 in place, 2 pixels U8x3 in place, arbitrary table",
                 claim="in place: alpha untouched at every position, colour looked up; pixel types without alpha map every component"),
        ],
    ),
)
