// E4 — Rust models of the x86 SSE2/SSSE3/SSE4.1/AVX/AVX2 instructions used by the alpha kernels
// (src/alpha/*/{sse4,avx2}.rs) that Kani 0.68 cannot execute (llvm.x86.* intrinsics, simd_cast) or for which it
// raises spurious lane-overflow checks (padd*/pmull* are wrapping by definition).
//
// Every model states the Intel SDM / Intrinsics-Guide "Operation" pseudo-code of the instruction in plain Rust on
// lane arrays.  The models are an ASSUMED CONTRACT ON THE HARDWARE.  They are cross-checked against the real
// instructions of the host CPU by /verif/tools/simd_model_selftest.sh (edge values per lane + pseudo-random vectors),
// which includes this very file.  MXCSR is assumed to hold its default value (round-to-nearest-even, exceptions masked,
// no FTZ/DAZ) – the crate never changes it.
//
// This file is used twice, textually unchanged:
//   * woven by contracts/e4_simd_alpha.py into `#[cfg(kani)] pub(crate) mod fv_simd { use super::*; ... }` of src/lib.rs and
//     substituted with `#[kani::stub(core::arch::x86_64::_mm_xxx, crate::fv_simd::mm_xxx)]`;
//   * included by the native differential self-test.
//
// Naming: model of `_mm_xxx` is `mm_xxx`, model of `_mm256_xxx` is `mm256_xxx`.  A model has exactly the signature of
// the intrinsic (safe `fn`, const generics included).  256-bit integer/float instructions that operate "per 128-bit lane"
// (pshufb, pack*, unpck*, shufps) are expressed by the 128-bit model applied to both halves.

use core::arch::x86_64::{__m128, __m128i, __m256, __m256i};
use core::mem::transmute;

// ---------------------------------------------------------------- lane views (bit casts, little endian lanes)
#[inline(always)] fn u8x16(a: __m128i) -> [u8; 16] { unsafe { transmute(a) } }
#[inline(always)] fn i16x8(a: __m128i) -> [i16; 8] { unsafe { transmute(a) } }
#[inline(always)] fn u16x8(a: __m128i) -> [u16; 8] { unsafe { transmute(a) } }
#[inline(always)] fn i32x4(a: __m128i) -> [i32; 4] { unsafe { transmute(a) } }
#[inline(always)] fn f32x4(a: __m128) -> [f32; 4] { unsafe { transmute(a) } }
#[inline(always)] fn u32x4f(a: __m128) -> [u32; 4] { unsafe { transmute(a) } }
#[inline(always)] fn from_u8x16(a: [u8; 16]) -> __m128i { unsafe { transmute(a) } }
#[inline(always)] fn from_i16x8(a: [i16; 8]) -> __m128i { unsafe { transmute(a) } }
#[inline(always)] fn from_u16x8(a: [u16; 8]) -> __m128i { unsafe { transmute(a) } }
#[inline(always)] fn from_i32x4(a: [i32; 4]) -> __m128i { unsafe { transmute(a) } }
#[inline(always)] fn from_f32x4(a: [f32; 4]) -> __m128 { unsafe { transmute(a) } }
#[inline(always)] fn from_u32x4f(a: [u32; 4]) -> __m128 { unsafe { transmute(a) } }
#[inline(always)] fn halves(a: __m256i) -> [__m128i; 2] { unsafe { transmute(a) } }
#[inline(always)] fn join(lo: __m128i, hi: __m128i) -> __m256i { unsafe { transmute([lo, hi]) } }
#[inline(always)] fn halves_ps(a: __m256) -> [__m128; 2] { unsafe { transmute(a) } }
#[inline(always)] fn join_ps(lo: __m128, hi: __m128) -> __m256 { unsafe { transmute([lo, hi]) } }

// ---------------------------------------------------------------- SSSE3 PSHUFB
// FOR i: IF b[i].bit7 THEN dst[i] := 0 ELSE dst[i] := a[b[i] & 15]
pub fn mm_shuffle_epi8(a: __m128i, b: __m128i) -> __m128i {
    let (a, b) = (u8x16(a), u8x16(b));
    let mut r = [0u8; 16];
    let mut i = 0;
    while i < 16 {
        r[i] = if b[i] & 0x80 != 0 { 0 } else { a[(b[i] & 0x0f) as usize] };
        i += 1;
    }
    from_u8x16(r)
}
// VPSHUFB ymm: the same, independently in each 128-bit lane
pub fn mm256_shuffle_epi8(a: __m256i, b: __m256i) -> __m256i {
    let (a, b) = (halves(a), halves(b));
    join(mm_shuffle_epi8(a[0], b[0]), mm_shuffle_epi8(a[1], b[1]))
}

// ---------------------------------------------------------------- SSE2 PACKUSWB / SSE4.1 PACKUSDW
// dst[0..8] := SaturateSignedWordToUnsignedByte(a[0..8]); dst[8..16] := the same of b
pub fn mm_packus_epi16(a: __m128i, b: __m128i) -> __m128i {
    let (a, b) = (i16x8(a), i16x8(b));
    let mut r = [0u8; 16];
    let mut i = 0;
    while i < 8 {
        r[i] = if a[i] < 0 { 0 } else if a[i] > 255 { 255 } else { a[i] as u8 };
        r[i + 8] = if b[i] < 0 { 0 } else if b[i] > 255 { 255 } else { b[i] as u8 };
        i += 1;
    }
    from_u8x16(r)
}
pub fn mm256_packus_epi16(a: __m256i, b: __m256i) -> __m256i {
    let (a, b) = (halves(a), halves(b));
    join(mm_packus_epi16(a[0], b[0]), mm_packus_epi16(a[1], b[1]))
}
// dst[0..4] := SaturateSignedDwordToUnsignedWord(a[0..4]); dst[4..8] := the same of b
pub fn mm_packus_epi32(a: __m128i, b: __m128i) -> __m128i {
    let (a, b) = (i32x4(a), i32x4(b));
    let mut r = [0u16; 8];
    let mut i = 0;
    while i < 4 {
        r[i] = if a[i] < 0 { 0 } else if a[i] > 65535 { 65535 } else { a[i] as u16 };
        r[i + 4] = if b[i] < 0 { 0 } else if b[i] > 65535 { 65535 } else { b[i] as u16 };
        i += 1;
    }
    from_u16x8(r)
}
pub fn mm256_packus_epi32(a: __m256i, b: __m256i) -> __m256i {
    let (a, b) = (halves(a), halves(b));
    join(mm_packus_epi32(a[0], b[0]), mm_packus_epi32(a[1], b[1]))
}

// ---------------------------------------------------------------- SSSE3 PMULHRSW
// tmp := ((a[i] * b[i]) >> 14) + 1 (signed 32 bit); dst[i] := tmp[16:1]
pub fn mm_mulhrs_epi16(a: __m128i, b: __m128i) -> __m128i {
    let (a, b) = (i16x8(a), i16x8(b));
    let mut r = [0i16; 8];
    let mut i = 0;
    while i < 8 {
        let tmp: i32 = ((a[i] as i32 * b[i] as i32) >> 14) + 1;
        r[i] = (tmp >> 1) as i16;
        i += 1;
    }
    from_i16x8(r)
}
pub fn mm256_mulhrs_epi16(a: __m256i, b: __m256i) -> __m256i {
    let (a, b) = (halves(a), halves(b));
    join(mm_mulhrs_epi16(a[0], b[0]), mm_mulhrs_epi16(a[1], b[1]))
}

// ---------------------------------------------------------------- wrapping lane arithmetic: PADDW, PADDD, PMULLW, PMULLD
pub fn mm_add_epi16(a: __m128i, b: __m128i) -> __m128i {
    let (a, b) = (i16x8(a), i16x8(b));
    let mut r = [0i16; 8];
    let mut i = 0;
    while i < 8 { r[i] = a[i].wrapping_add(b[i]); i += 1; }
    from_i16x8(r)
}
pub fn mm_add_epi32(a: __m128i, b: __m128i) -> __m128i {
    let (a, b) = (i32x4(a), i32x4(b));
    let mut r = [0i32; 4];
    let mut i = 0;
    while i < 4 { r[i] = a[i].wrapping_add(b[i]); i += 1; }
    from_i32x4(r)
}
// low 16 bits of the 32-bit product
pub fn mm_mullo_epi16(a: __m128i, b: __m128i) -> __m128i {
    let (a, b) = (i16x8(a), i16x8(b));
    let mut r = [0i16; 8];
    let mut i = 0;
    while i < 8 { r[i] = a[i].wrapping_mul(b[i]); i += 1; }
    from_i16x8(r)
}
// low 32 bits of the 64-bit product
pub fn mm_mullo_epi32(a: __m128i, b: __m128i) -> __m128i {
    let (a, b) = (i32x4(a), i32x4(b));
    let mut r = [0i32; 4];
    let mut i = 0;
    while i < 4 { r[i] = a[i].wrapping_mul(b[i]); i += 1; }
    from_i32x4(r)
}
pub fn mm256_add_epi16(a: __m256i, b: __m256i) -> __m256i {
    let (a, b) = (halves(a), halves(b));
    join(mm_add_epi16(a[0], b[0]), mm_add_epi16(a[1], b[1]))
}
pub fn mm256_add_epi32(a: __m256i, b: __m256i) -> __m256i {
    let (a, b) = (halves(a), halves(b));
    join(mm_add_epi32(a[0], b[0]), mm_add_epi32(a[1], b[1]))
}
pub fn mm256_mullo_epi16(a: __m256i, b: __m256i) -> __m256i {
    let (a, b) = (halves(a), halves(b));
    join(mm_mullo_epi16(a[0], b[0]), mm_mullo_epi16(a[1], b[1]))
}
pub fn mm256_mullo_epi32(a: __m256i, b: __m256i) -> __m256i {
    let (a, b) = (halves(a), halves(b));
    join(mm_mullo_epi32(a[0], b[0]), mm_mullo_epi32(a[1], b[1]))
}

// ---------------------------------------------------------------- SSE4.1 PMINUW
pub fn mm_min_epu16(a: __m128i, b: __m128i) -> __m128i {
    let (a, b) = (u16x8(a), u16x8(b));
    let mut r = [0u16; 8];
    let mut i = 0;
    while i < 8 { r[i] = if a[i] < b[i] { a[i] } else { b[i] }; i += 1; }
    from_u16x8(r)
}
pub fn mm256_min_epu16(a: __m256i, b: __m256i) -> __m256i {
    let (a, b) = (halves(a), halves(b));
    join(mm_min_epu16(a[0], b[0]), mm_min_epu16(a[1], b[1]))
}

// ---------------------------------------------------------------- SSE4.1 PBLENDVB
// FOR i: IF mask[i].bit7 THEN dst[i] := b[i] ELSE dst[i] := a[i]
pub fn mm_blendv_epi8(a: __m128i, b: __m128i, mask: __m128i) -> __m128i {
    let (a, b, m) = (u8x16(a), u8x16(b), u8x16(mask));
    let mut r = [0u8; 16];
    let mut i = 0;
    while i < 16 { r[i] = if m[i] & 0x80 != 0 { b[i] } else { a[i] }; i += 1; }
    from_u8x16(r)
}
pub fn mm256_blendv_epi8(a: __m256i, b: __m256i, mask: __m256i) -> __m256i {
    let (a, b, m) = (halves(a), halves(b), halves(mask));
    join(mm_blendv_epi8(a[0], b[0], m[0]), mm_blendv_epi8(a[1], b[1], m[1]))
}

// ---------------------------------------------------------------- SSE2 CVTDQ2PS / CVTPS2DQ (MXCSR.RC = nearest even)
// Convert_Int32_To_FP32: exact when |x| < 2^24, else rounded to nearest even – this is Rust's `as f32`.
pub fn mm_cvtepi32_ps(a: __m128i) -> __m128 {
    let a = i32x4(a);
    from_f32x4([a[0] as f32, a[1] as f32, a[2] as f32, a[3] as f32])
}
pub fn mm256_cvtepi32_ps(a: __m256i) -> __m256 {
    let a = halves(a);
    join_ps(mm_cvtepi32_ps(a[0]), mm_cvtepi32_ps(a[1]))
}
// Convert_FP32_To_Int32 with rounding to nearest (ties to even); NaN, +-inf and values that do not fit i32 give the
// "integer indefinite" value 0x8000_0000.
fn cvt_f32_i32(x: f32) -> i32 {
    if !(x >= -2147483648.0f32 && x < 2147483648.0f32) {
        return i32::MIN; // also NaN
    }
    // |x| >= 2^23 is already an integer; below that x - trunc(x) is exact
    let t = x as i32; // truncation toward zero, in range here
    let d = x - (t as f32); // exact: either |x| < 2^23 (t exactly representable, Sterbenz) or d == 0
    if d > 0.5 || (d == 0.5 && (t & 1) != 0) {
        t + 1
    } else if d < -0.5 || (d == -0.5 && (t & 1) != 0) {
        t - 1
    } else {
        t
    }
}
pub fn mm_cvtps_epi32(a: __m128) -> __m128i {
    let a = f32x4(a);
    from_i32x4([cvt_f32_i32(a[0]), cvt_f32_i32(a[1]), cvt_f32_i32(a[2]), cvt_f32_i32(a[3])])
}
pub fn mm256_cvtps_epi32(a: __m256) -> __m256i {
    let a = halves_ps(a);
    join(mm_cvtps_epi32(a[0]), mm_cvtps_epi32(a[1]))
}

// ---------------------------------------------------------------- SSE CMPPS / AVX VCMPPS, ANDPS
// predicate table of VCMPPS imm8[4:0]; bit 4 only changes the signalling behaviour (no effect on the result).
fn cmp_pred(imm: i32, a: f32, b: f32) -> bool {
    let un = a != a || b != b;
    let (lt, eq, gt) = (a < b, a == b, a > b);
    match imm & 0x0f {
        0 => eq,              // EQ_OQ
        1 => lt,              // LT_OS
        2 => lt || eq,        // LE_OS
        3 => un,              // UNORD_Q
        4 => !eq,             // NEQ_UQ
        5 => !lt,             // NLT_US
        6 => !(lt || eq),     // NLE_US
        7 => !un,             // ORD_Q
        8 => eq || un,        // EQ_UQ
        9 => !(gt || eq),     // NGE_US
        10 => !gt,            // NGT_US
        11 => false,          // FALSE_OQ
        12 => lt || gt,       // NEQ_OQ
        13 => gt || eq,       // GE_OS
        14 => gt,             // GT_OS
        _ => true,            // TRUE_UQ
    }
}
fn cmp_ps(imm: i32, a: __m128, b: __m128) -> __m128 {
    let (a, b) = (f32x4(a), f32x4(b));
    let mut r = [0u32; 4];
    let mut i = 0;
    while i < 4 { r[i] = if cmp_pred(imm, a[i], b[i]) { 0xffff_ffff } else { 0 }; i += 1; }
    from_u32x4f(r)
}
pub fn mm_cmpneq_ps(a: __m128, b: __m128) -> __m128 { cmp_ps(4, a, b) }
pub fn mm256_cmp_ps<const IMM5: i32>(a: __m256, b: __m256) -> __m256 {
    let (a, b) = (halves_ps(a), halves_ps(b));
    join_ps(cmp_ps(IMM5, a[0], b[0]), cmp_ps(IMM5, a[1], b[1]))
}
pub fn mm_and_ps(a: __m128, b: __m128) -> __m128 {
    let (a, b) = (u32x4f(a), u32x4f(b));
    from_u32x4f([a[0] & b[0], a[1] & b[1], a[2] & b[2], a[3] & b[3]])
}
pub fn mm256_and_ps(a: __m256, b: __m256) -> __m256 {
    let (a, b) = (halves_ps(a), halves_ps(b));
    join_ps(mm_and_ps(a[0], b[0]), mm_and_ps(a[1], b[1]))
}

// ---------------------------------------------------------------- SSE MULPS / DIVPS: one IEEE-754 binary32 operation per lane
// The invalid operations (0 * inf, 0 / 0, inf / inf; exceptions masked) deliver a quiet NaN.  They are written out because
// Kani attaches a "NaN on multiplication/division" check to every Rust `*` and `/` that can create a NaN, and the kernels
// rely on that NaN (u16 divide: 0 * 65535 / 0 -> NaN -> CVTPS2DQ -> 0x8000_0000 -> low word 0).  NaN payloads are not modelled.
fn fmul(a: f32, b: f32) -> f32 {
    if (a.is_infinite() && b == 0.0) || (a == 0.0 && b.is_infinite()) { f32::NAN } else { a * b }
}
fn fdiv(a: f32, b: f32) -> f32 {
    if a.is_nan() || b.is_nan() || (a == 0.0 && b == 0.0) || (a.is_infinite() && b.is_infinite()) {
        f32::NAN
    } else if b.is_infinite() {
        // finite / inf = zero with the xor of the signs (written out: CBMC's NaN check flags every division by an infinity)
        if a.is_sign_negative() != b.is_sign_negative() { -0.0 } else { 0.0 }
    } else {
        a / b
    }
}
pub fn mm_mul_ps(a: __m128, b: __m128) -> __m128 {
    let (a, b) = (f32x4(a), f32x4(b));
    from_f32x4([fmul(a[0], b[0]), fmul(a[1], b[1]), fmul(a[2], b[2]), fmul(a[3], b[3])])
}
pub fn mm_div_ps(a: __m128, b: __m128) -> __m128 {
    let (a, b) = (f32x4(a), f32x4(b));
    from_f32x4([fdiv(a[0], b[0]), fdiv(a[1], b[1]), fdiv(a[2], b[2]), fdiv(a[3], b[3])])
}
pub fn mm256_mul_ps(a: __m256, b: __m256) -> __m256 {
    let (a, b) = (halves_ps(a), halves_ps(b));
    join_ps(mm_mul_ps(a[0], b[0]), mm_mul_ps(a[1], b[1]))
}
pub fn mm256_div_ps(a: __m256, b: __m256) -> __m256 {
    let (a, b) = (halves_ps(a), halves_ps(b));
    join_ps(mm_div_ps(a[0], b[0]), mm_div_ps(a[1], b[1]))
}

// ---------------------------------------------------------------- lane-wise MULPS / DIVPS with the lane operation left UNINTERPRETED
// Only for the f32 kernels (their arithmetic is nothing but one MULPS or DIVPS per colour lane) and only under Kani.
// SAT cannot prove two symbolic binary32 dividers equivalent in reasonable time (one pair: no answer in 13 min), so the
// f32 harnesses prove the stronger, solver-friendly statement "for EVERY lane function F: if MULPS/DIVPS applies F lane-wise,
// the kernel output colour is F(colour, alpha)" - F is an uninterpreted function: a fresh nondeterministic value per distinct
// operand pair, the same value for a repeated pair (hand-written Ackermann table).  Instantiating F with the IEEE operation of
// mm_mul_ps / mm_div_ps above (which is what the differential self-test validates) gives the concrete statement.
#[cfg(kani)]
pub mod uf {
    use super::*;
    const CAP: usize = 64;
    pub struct Table { pub n: usize, pub arg: [(u32, u32); CAP], pub res: [u32; CAP] }
    pub static mut MUL: Table = Table { n: 0, arg: [(0, 0); CAP], res: [0; CAP] };
    pub static mut DIV: Table = Table { n: 0, arg: [(0, 0); CAP], res: [0; CAP] };
    /// F(a, b) on bit patterns: the value recorded for an earlier application to the same (a, b), else a fresh arbitrary value;
    /// every application is recorded (so the number of entries is the number of applications - no data-dependent loop bound)
    pub fn apply(t: &mut Table, a: f32, b: f32) -> f32 {
        let key = (a.to_bits(), b.to_bits());
        let mut r: u32 = kani::any();
        let mut k = t.n;
        while k > 0 {
            k -= 1;
            if t.arg[k] == key { r = t.res[k]; }
        }
        assert!(t.n < CAP);
        t.arg[t.n] = key;
        t.res[t.n] = r;
        t.n += 1;
        f32::from_bits(r)
    }
    pub fn mul(a: f32, b: f32) -> f32 { unsafe { apply(&mut *core::ptr::addr_of_mut!(MUL), a, b) } }
    pub fn div(a: f32, b: f32) -> f32 { unsafe { apply(&mut *core::ptr::addr_of_mut!(DIV), a, b) } }
    pub fn uf_mm_mul_ps(a: __m128, b: __m128) -> __m128 {
        let (a, b) = (f32x4(a), f32x4(b));
        from_f32x4([mul(a[0], b[0]), mul(a[1], b[1]), mul(a[2], b[2]), mul(a[3], b[3])])
    }
    pub fn uf_mm_div_ps(a: __m128, b: __m128) -> __m128 {
        let (a, b) = (f32x4(a), f32x4(b));
        from_f32x4([div(a[0], b[0]), div(a[1], b[1]), div(a[2], b[2]), div(a[3], b[3])])
    }
    pub fn uf_mm256_mul_ps(a: __m256, b: __m256) -> __m256 {
        let (a, b) = (halves_ps(a), halves_ps(b));
        join_ps(uf_mm_mul_ps(a[0], b[0]), uf_mm_mul_ps(a[1], b[1]))
    }
    pub fn uf_mm256_div_ps(a: __m256, b: __m256) -> __m256 {
        let (a, b) = (halves_ps(a), halves_ps(b));
        join_ps(uf_mm_div_ps(a[0], b[0]), uf_mm_div_ps(a[1], b[1]))
    }
    // ------------------------------------------------------------ pixel level: the stand-in pixel function of the row-driver harnesses (A8)
    // The row drivers are generic in what happens to one pixel: they only cut the row into vectors, call the per-vector function and
    // hand the rest to the remainder code; pixel values are opaque to them.  A8 replaces the per-vector function and the portable row
    // function by "G on every pixel" and proves that the driver applies G to every pixel of the row exactly once.  G ranges over the
    // family G_K(p) = p xor K with an ARBITRARY (symbolic) K on the pixel's bits: cheap for SAT, and every routing error (a pixel
    // skipped, processed twice, taken from the wrong place, a zero-padding result leaking into the row) changes the result for some K.
    // (A fully uninterpreted G via an Ackermann table as above was measured: 1 M variables / 8-11 GB per harness for the AVX2 drivers.)
    pub static mut GK: [u32; 4] = [0; 4];
    pub fn gk_set(k: [u32; 4]) { unsafe { *core::ptr::addr_of_mut!(GK) = k; } }
    pub fn gk(key: [u32; 4]) -> [u32; 4] {
        let k = unsafe { *core::ptr::addr_of!(GK) };
        [key[0] ^ k[0], key[1] ^ k[1], key[2] ^ k[2], key[3] ^ k[3]]
    }
    /// word-wise equality (`==` on arrays is a call to memcmp, whose byte loop is very slow under CBMC)
    pub fn keq(a: [u32; 4], b: [u32; 4]) -> bool { (a[0] == b[0]) & (a[1] == b[1]) & (a[2] == b[2]) & (a[3] == b[3]) }
}

// ================================================================================================================
// K9 — instructions of the u8 CONVOLUTION kernels (src/convolution/{vertical_u8,u8x4,u8x3,u8x2,u8x1}/{sse4,avx2}.rs)
// Same rules as above: SDM "Operation" pseudo-code on lane arrays, cross-checked by tools/simd_model_selftest.sh.
// ================================================================================================================
// (kept in a child module and re-exported, so that the list of top-level models - the ones the alpha units A7 / A8 enumerate - stays what it was)
pub use k9::*;
pub mod k9 {
    use super::*;
    // ---------------------------------------------------------------- SSE2 PMADDWD / AVX2 VPMADDWD
    // FOR j := 0 to 3: dst[32j+31:32j] := SignExtend32(a[2j] * b[2j]) + SignExtend32(a[2j+1] * b[2j+1])
    // (the 32-bit sum wraps; it can only do so for a[2j] = a[2j+1] = b[2j] = b[2j+1] = -32768, giving 0x8000_0000)
    pub fn mm_madd_epi16(a: __m128i, b: __m128i) -> __m128i {
        let (a, b) = (i16x8(a), i16x8(b));
        let mut r = [0i32; 4];
        let mut j = 0;
        while j < 4 {
            r[j] = (a[2 * j] as i32 * b[2 * j] as i32).wrapping_add(a[2 * j + 1] as i32 * b[2 * j + 1] as i32);
            j += 1;
        }
        from_i32x4(r)
    }
    pub fn mm256_madd_epi16(a: __m256i, b: __m256i) -> __m256i {
        let (a, b) = (halves(a), halves(b));
        join(mm_madd_epi16(a[0], b[0]), mm_madd_epi16(a[1], b[1]))
    }

    // ---------------------------------------------------------------- SSE2 PACKSSDW / AVX2 VPACKSSDW
    // dst[0..4] := SaturateSignedDwordToSignedWord(a[0..4]); dst[4..8] := the same of b   (ymm: per 128-bit lane)
    pub fn mm_packs_epi32(a: __m128i, b: __m128i) -> __m128i {
        let (a, b) = (i32x4(a), i32x4(b));
        let mut r = [0i16; 8];
        let mut i = 0;
        while i < 4 {
            r[i] = if a[i] < -32768 { -32768 } else if a[i] > 32767 { 32767 } else { a[i] as i16 };
            r[i + 4] = if b[i] < -32768 { -32768 } else if b[i] > 32767 { 32767 } else { b[i] as i16 };
            i += 1;
        }
        from_i16x8(r)
    }
    pub fn mm256_packs_epi32(a: __m256i, b: __m256i) -> __m256i {
        let (a, b) = (halves(a), halves(b));
        join(mm_packs_epi32(a[0], b[0]), mm_packs_epi32(a[1], b[1]))
    }

    // ---------------------------------------------------------------- SSE2 PSRAD imm8 / AVX2 VPSRAD imm8
    // IF imm8[7:0] > 31 THEN dst[i] := (a[i] < 0 ? 0xFFFFFFFF : 0) ELSE dst[i] := SignExtend(a[i] >> imm8)
    // (core::arch only accepts 0 <= IMM8 <= 255)
    pub fn mm_srai_epi32<const IMM8: i32>(a: __m128i) -> __m128i {
        let a = i32x4(a);
        let c: u32 = if (IMM8 & 0xff) > 31 { 31 } else { (IMM8 & 0xff) as u32 };
        from_i32x4([a[0] >> c, a[1] >> c, a[2] >> c, a[3] >> c])
    }
    pub fn mm256_srai_epi32<const IMM8: i32>(a: __m256i) -> __m256i {
        let a = halves(a);
        join(mm_srai_epi32::<IMM8>(a[0]), mm_srai_epi32::<IMM8>(a[1]))
    }

    // ---------------------------------------------------------------- SSE4.1 PMOVZXBD / PMOVZXBW, AVX2 VPMOVZXBW
    // dst[i] (32 bit) := ZeroExtend(a.byte[i]), i = 0..3
    pub fn mm_cvtepu8_epi32(a: __m128i) -> __m128i {
        let a = u8x16(a);
        from_i32x4([a[0] as i32, a[1] as i32, a[2] as i32, a[3] as i32])
    }
    // dst[i] (16 bit) := ZeroExtend(a.byte[i]), i = 0..7
    pub fn mm_cvtepu8_epi16(a: __m128i) -> __m128i {
        let a = u8x16(a);
        let mut r = [0u16; 8];
        let mut i = 0;
        while i < 8 { r[i] = a[i] as u16; i += 1; }
        from_u16x8(r)
    }
    // dst[i] (16 bit) := ZeroExtend(a.byte[i]), i = 0..15   (xmm source, ymm destination)
    pub fn mm256_cvtepu8_epi16(a: __m128i) -> __m256i {
        let a = u8x16(a);
        let mut r = [0u16; 16];
        let mut i = 0;
        while i < 16 { r[i] = a[i] as u16; i += 1; }
        unsafe { transmute(r) }
    }

    // ---------------------------------------------------------------- AVX/AVX2 128-bit lane insert / extract / cast
    // VINSERTI128 / VINSERTF128: dst := a; dst[128*imm8[0] +: 128] := b
    pub fn mm256_inserti128_si256<const IMM1: i32>(a: __m256i, b: __m128i) -> __m256i {
        let a = halves(a);
        if IMM1 & 1 == 0 { join(b, a[1]) } else { join(a[0], b) }
    }
    pub fn mm256_insertf128_si256<const IMM1: i32>(a: __m256i, b: __m128i) -> __m256i {
        let a = halves(a);
        if IMM1 & 1 == 0 { join(b, a[1]) } else { join(a[0], b) }
    }
    // VEXTRACTI128: dst := a[128*imm8[0] +: 128]
    pub fn mm256_extracti128_si256<const IMM1: i32>(a: __m256i) -> __m128i {
        let a = halves(a);
        if IMM1 & 1 == 0 { a[0] } else { a[1] }
    }
    // cast xmm -> ymm: low half = a, high half UNDEFINED by the ISA (the model picks zero; the kernels always overwrite the high half
    // with VINSERT*128 before use, and the self-test compares the low half only)
    pub fn mm256_castsi128_si256(a: __m128i) -> __m256i {
        join(a, from_i32x4([0; 4]))
    }
    // cast ymm -> xmm: the low half
    pub fn mm256_castsi256_si128(a: __m256i) -> __m128i {
        halves(a)[0]
    }

    // ---------------------------------------------------------------- SSE4.1 PEXTRQ, SSE2 PSHUFD
    // dst := a.qword[imm8[0]]
    pub fn mm_extract_epi64<const IMM1: i32>(a: __m128i) -> i64 {
        let a: [i64; 2] = unsafe { transmute(a) };
        a[(IMM1 & 1) as usize]
    }
    // dst.dword[i] := a.dword[imm8[2i+1:2i]]
    pub fn mm_shuffle_epi32<const IMM8: i32>(a: __m128i) -> __m128i {
        let a = i32x4(a);
        from_i32x4([a[(IMM8 & 3) as usize], a[((IMM8 >> 2) & 3) as usize], a[((IMM8 >> 4) & 3) as usize], a[((IMM8 >> 6) & 3) as usize]])
    }
}
