"""K6 — precompute_coefficients: window invariant WinInv for an ARBITRARY filter function.

WinInv(coeffs, in_size, out_size):
   bounds.len() == out_size, values.len() == window_size * out_size,
   for every bound: start + size <= in_size, size <= window_size
(these are exactly the facts the kernels' unchecked reads rely on).
"""

F = "src/convolution/mod.rs"

FILTERS = [("holey", "f_holey", "1.0"), ("ones", "f_ones", "2.0"), ("alternating", "f_alt", "3.0"), ("zero", "f_zero", "1.0"), ("huge", "f_huge", "0.5")]
GEOS = [("3to2", 3, "0.0", "3.0", 2), ("4to8", 4, "0.0", "4.0", 8), ("crop4to2", 4, "0.5", "3.5", 2), ("sub3to4", 3, "1.25", "2.75", 4), ("5to1", 5, "0.0", "5.0", 1)]

CODE = """
    // concrete custom filters (a symbolic filter value makes the length of the coefficient vector symbolic - leading / trailing
    // zeros are trimmed - and exhausts memory in < 2 min, so custom filters are sampled): a zero gap inside the support, a box of ones,
    // alternating signs, identically zero, huge values
    fn f_holey(t: f64) -> f64 { if t > 0.2 && t < 0.3 { 0.0 } else if t.abs() < 1.0 { 1.0 - t.abs() } else { 0.0 } }
    fn f_ones(_t: f64) -> f64 { 1.0 }
    fn f_alt(t: f64) -> f64 { if (t.floor() as i64) % 2 == 0 { 1.5 } else { -1.0 } }
    fn f_zero(_t: f64) -> f64 { 0.0 }
    fn f_huge(t: f64) -> f64 { if t < 0.0 { 1.0e300 } else { -9.0e299 } }

    pub(crate) fn wininv(c: &Coefficients, in_size: u32, out_size: u32) {
        assert!(c.bounds.len() == out_size as usize);
        assert!(c.window_size >= 1);
        assert!(c.values.len() == c.window_size * out_size as usize);
        for b in c.bounds.iter() {
            assert!(b.start as u64 + b.size as u64 <= in_size as u64);
            assert!(b.size as usize <= c.window_size);
        }
    }

    #[kani::proof]
    #[kani::unwind(8)]
    fn k6_degenerate() {
        // concrete degenerate inputs (symbolic sizes drag the whole table construction into the formula)
        for (in_size, in0, in1, out_size) in [(0u32, 0.0f64, 0.0f64, 5u32), (5, 0.0, 5.0, 0), (5, 2.0, 2.0, 3), (5, 3.0, 1.0, 3), (0, 0.0, 0.0, 0)] {
            let c = precompute_coefficients(in_size, in0, in1, out_size, f_ones, 1.0, true);
            assert!(c.bounds.is_empty() && c.values.is_empty());
        }
    }
"""
hs = [dict(name="k6_degenerate", kind="bounded", timeout=600, bound="five concrete degenerate inputs (zero in/out size, empty and inverted crop side)", claim="empty tables for zero sizes or a non-positive scale")]
for fname, ff, sup in FILTERS:
    for gname, in_size, in0, in1, out in GEOS:
        nm = "k6_wininv_%s_%s" % (fname, gname)
        CODE += """
    #[kani::proof]
    #[kani::unwind(%d)]
    fn %s() {
        wininv(&precompute_coefficients(%d, %s, %s, %d, %s, %s, true), %d, %d);
        wininv(&precompute_coefficients(%d, %s, %s, %d, %s, %s, false), %d, %d);
    }
""" % (48 if gname == "5to1" else max(in_size, out) + 9, nm, in_size, in0, in1, out, ff, sup, in_size, out, in_size, in0, in1, out, ff, sup, in_size, out)
        hs.append(dict(name=nm, kind="bounded", timeout=900, tier="quick",
                       bound="custom filter '%s' (support %s), geometry in_size=%d crop [%s,%s) out_size=%d, adaptive and fixed kernel" % (fname, sup, in_size, in0, in1, out),
                       claim="WinInv: one bound per output pixel, every window inside the line, no longer than window_size, values.len() == window_size*out_size"))

UNIT = dict(
    id="K6",
    title="precompute_coefficients establishes the window invariant (sampled custom filters x concrete geometries; degenerate inputs complete)",
    assumptions=["bounded: concrete 1-D geometry per harness; five concrete custom filters (zero gap, ones, alternating sign, zero, huge); the polynomial built-in filters are covered by unit W"],
    kani=dict(
        functions=[dict(file=F, fn="precompute_coefficients")],
        modules=[dict(file=F, name="fv_k6", code=CODE)],
        harnesses=hs,
    ),
)
