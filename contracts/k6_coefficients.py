"""K6 — precompute_coefficients: window invariant WinInv for an ARBITRARY filter function.

WinInv(coeffs, in_size, out_size):
   bounds.len() == out_size, values.len() == window_size * out_size,
   for every bound: start + size <= in_size, size <= window_size
(these are exactly the facts the kernels' unchecked reads rely on).
"""

F = "src/convolution/mod.rs"

def harness(name, in_size, out_size, support, unwind, width="1.5"):
    return """
    #[kani::proof]
    #[kani::unwind(%(unwind)d)]
    fn %(name)s() {
        // crop position fully symbolic, crop width concrete (a symbolic width makes window_size - a Vec length - symbolic
        // and exhausts memory); what CroppedSrcImageView::crop (G2) guarantees about a crop side:
        let in0: f64 = kani::any();
        let in1 = in0 + %(width)s;
        kani::assume(in0 >= 0. && in0 < %(in_size)d as f64 && in1 > in0 && in1 <= %(in_size)d as f64);
        let adaptive: bool = kani::any();
        let c = precompute_coefficients(%(in_size)d, in0, in1, %(out_size)d, fv_any_filter, %(support)s, adaptive);
        kani::cover!(c.bounds.len() == %(out_size)d);
        wininv(&c, %(in_size)d, %(out_size)d);
    }
""" % dict(name=name, in_size=in_size, out_size=out_size, support=support, unwind=unwind, width=width)

CODE = """
    /// a filter about which nothing is known: every call returns an arbitrary finite value
    fn fv_any_filter(_x: f64) -> f64 {
        let w: f64 = kani::any();
        kani::assume(w.is_finite());
        w
    }

    pub(crate) fn wininv(c: &Coefficients, in_size: u32, out_size: u32) {
        assert!(c.bounds.len() == out_size as usize);
        assert!(c.window_size >= 1);
        assert!(c.values.len() == c.window_size * out_size as usize);
        for b in c.bounds.iter() {
            assert!(b.start as u64 + b.size as u64 <= in_size as u64);
            assert!(b.size as usize <= c.window_size);
        }
    }

    #[kani::proof]
    fn k6_degenerate() {
        let (in_size, out_size): (u32, u32) = (kani::any(), kani::any());
        let (in0, in1): (f64, f64) = (kani::any(), kani::any());
        kani::assume(in_size == 0 || out_size == 0 || !(in1 > in0));
        let c = precompute_coefficients(in_size, in0, in1, out_size, fv_any_filter, 1.0, kani::any());
        assert!(c.bounds.is_empty() && c.values.is_empty());
    }
""" + harness("k6_wininv_2_to_1_s1", 2, 1, "1.0", 12, "1.75") + harness("k6_wininv_3_to_2_s1", 3, 2, "1.0", 14, "2.5") \
    + harness("k6_wininv_2_to_3_s05", 2, 3, "0.5", 12, "0.4") + harness("k6_wininv_3_to_1_s2", 3, 1, "2.0", 22, "2.0") \
    + harness("k6_wininv_4_to_2_s3", 4, 2, "3.0", 40, "3.0")

UNIT = dict(
    id="K6",
    title="precompute_coefficients establishes the window invariant for every crop side and an arbitrary (non-deterministic) filter",
    assumptions=["bounded: concrete (in_size, out_size, support) per harness; crop position symbolic f64 (width concrete); filter values arbitrary finite"],
    kani=dict(
        functions=[dict(file=F, fn="precompute_coefficients")],
        modules=[dict(file=F, name="fv_k6", code=CODE)],
        harnesses=[
            dict(name="k6_degenerate", kind="complete", timeout=300, claim="empty tables for zero sizes or a non-positive scale (all u32, all f64)"),
            dict(name="k6_wininv_2_to_1_s1", kind="bounded", covers=1, timeout=900, bound="in_size 2, out_size 1, support 1.0, every crop position (width concrete), any filter", claim="WinInv"),
            dict(name="k6_wininv_3_to_2_s1", kind="bounded", covers=1, timeout=900, bound="in_size 3, out_size 2, support 1.0, every crop position (width concrete), any filter", claim="WinInv"),
            dict(name="k6_wininv_2_to_3_s05", kind="bounded", covers=1, timeout=900, bound="in_size 2, out_size 3, support 0.5, every crop position (width concrete), any filter", claim="WinInv"),
            dict(name="k6_wininv_3_to_1_s2", kind="bounded", covers=1, timeout=900, tier="thorough", bound="in_size 3, out_size 1, support 2.0", claim="WinInv"),
            dict(name="k6_wininv_4_to_2_s3", kind="bounded", covers=1, timeout=1800, tier="thorough", bound="in_size 4, out_size 2, support 3.0", claim="WinInv"),
        ],
    ),
)
