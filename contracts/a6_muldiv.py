"""A6 — MulDiv entry points (src/mul_div.rs): rejection, frame, typed == in-place, and the two alpha facts C07 needs.

C07 argument (composition, written in DESIGN 4/C07): after multiply_alpha the colour lanes of an alpha = 0 pixel are 0 for EVERY
stored colour (A1: f(c, 0) = 0), so two sources that differ only under alpha = 0 have IDENTICAL premultiplied images - everything
downstream (a deterministic function of that image) is identical.  divide_alpha maps alpha' = 0 to colour 0 (A3), and
alpha = max is the identity for both (A1: f(c, M) = c; A3 with a = M), so an opaque image takes the same values as with alpha
handling off provided the resampled alpha stays at max (C10 lemma).  K7 shows alpha is convolved like any other channel.
"""
from common import SUPPORT_MODULE

F = "src/mul_div.rs"

CODE = """
    use crate::images::{TypedImage, TypedImageRef, TypedCroppedImageMut};
    use crate::pixels::*;

    fn md() -> MulDiv { MulDiv { cpu_extensions: CpuExtensions::None } }

    // two sources that differ only in the colour stored under alpha == 0 premultiply to the same image (U8x4, U16x2)
    #[kani::proof]
    #[kani::unwind(6)]
    fn a6_transparent_colour_is_erased() {
        let a: [[u8; 4]; 2] = kani::any();
        let mut b = a;
        let other: [u8; 3] = kani::any();
        if a[0][3] == 0 { b[0][0] = other[0]; b[0][1] = other[1]; b[0][2] = other[2]; }
        let (sa, sb) = ([U8x4::new(a[0]), U8x4::new(a[1])], [U8x4::new(b[0]), U8x4::new(b[1])]);
        let (mut da, mut db) = ([U8x4::new([1; 4]); 2], [U8x4::new([2; 4]); 2]);
        {
            let (va, vb) = (TypedImageRef::new(2, 1, &sa).unwrap(), TypedImageRef::new(2, 1, &sb).unwrap());
            let mut ia = TypedImage::from_pixels_slice(2, 1, &mut da).unwrap();
            assert!(md().multiply_alpha_typed(&va, &mut ia).is_ok());
            let mut ib = TypedImage::from_pixels_slice(2, 1, &mut db).unwrap();
            assert!(md().multiply_alpha_typed(&vb, &mut ib).is_ok());
        }
        kani::cover!(a[0][3] == 0 && other[0] != a[0][0]);
        assert!(da[0].0 == db[0].0 && da[1].0 == db[1].0);
        if a[0][3] == 0 { assert!(da[0].0 == [0, 0, 0, 0]); }
        if a[1][3] == 255 { assert!(da[1].0 == a[1]); }            // opaque: identity
    }

    #[kani::proof]
    #[kani::unwind(6)]
    fn a6_divide_transparent_and_opaque() {
        let a: [[u16; 2]; 2] = kani::any();
        kani::assume((a[0][1] == 0 || a[0][1] == 65535) && (a[1][1] == 0 || a[1][1] == 65535));
        let mut px = [U16x2::new(a[0]), U16x2::new(a[1])];
        {
            let mut img = TypedImage::from_pixels_slice(2, 1, &mut px).unwrap();
            assert!(md().divide_alpha_inplace_typed(&mut img).is_ok());
        }
        for p in 0..2 {
            if a[p][1] == 0 { assert!(px[p].0 == [0, 0]); } else { assert!(px[p].0 == a[p]); }   // alpha' = 0 -> colour 0; alpha = max -> identity
        }
    }

    // size mismatch is rejected and the destination untouched; a cropped destination keeps its surroundings
    #[kani::proof]
    #[kani::unwind(14)]
    fn a6_rejects_size_mismatch_and_keeps_frame() {
        let s: [[u8; 2]; 4] = kani::any();
        let src = [U8x2::new(s[0]), U8x2::new(s[1]), U8x2::new(s[2]), U8x2::new(s[3])];
        let mut parent = [U8x2::new([9, 9]); 12];                   // 4 x 3
        {
            let sv = TypedImageRef::new(2, 2, &src).unwrap();
            let mut p = TypedImage::from_pixels_slice(4, 3, &mut parent).unwrap();
            {
                let mut bad = TypedCroppedImageMut::from_ref(&mut p, 1, 0, 2, 3).unwrap();     // taller than the source
                assert!(md().multiply_alpha_typed(&sv, &mut bad).is_err());
                assert!(md().divide_alpha_typed(&sv, &mut bad).is_err());
            }
            {
                let mut bad = TypedCroppedImageMut::from_ref(&mut p, 1, 0, 3, 2).unwrap();     // wider than the source
                assert!(md().multiply_alpha_typed(&sv, &mut bad).is_err());
                assert!(md().divide_alpha_typed(&sv, &mut bad).is_err());
            }
        }
        let mut i = 0;
        while i < 12 { assert!(parent[i].0 == [9, 9]); i += 1; }     // rejected calls wrote nothing
        {
            let sv = TypedImageRef::new(2, 2, &src).unwrap();
            let mut p = TypedImage::from_pixels_slice(4, 3, &mut parent).unwrap();
            let mut good = TypedCroppedImageMut::from_ref(&mut p, 1, 1, 2, 2).unwrap();
            assert!(md().multiply_alpha_typed(&sv, &mut good).is_ok());
        }
        let mut i = 0;
        while i < 12 {
            let (x, y) = (i % 4, i / 4);
            if x >= 1 && x < 3 && y >= 1 { assert!(parent[i].0[1] == s[(y - 1) * 2 + (x - 1)][1]); }   // alpha copied
            else { assert!(parent[i].0 == [9, 9]); }                                                  // surroundings untouched
            i += 1;
        }
    }

    #[kani::proof]
    fn a6_is_supported_and_dynamic_rejection() {
        let m = md();
        let pt = crate::fv_support::any_pixel_type();
        let want = matches!(pt, PixelType::U8x2 | PixelType::U8x4 | PixelType::U16x2 | PixelType::U16x4 | PixelType::F32x2 | PixelType::F32x4);
        assert!(m.is_supported(pt) == want);
    }

    #[kani::proof]
    #[kani::unwind(6)]
    fn a6_types_without_alpha_rejected() {
        let mut a = [U8x3::new([1, 2, 3]); 1];
        let b = [U8x3::new([1, 2, 3]); 1];
        let sv = TypedImageRef::new(1, 1, &b).unwrap();
        let mut dv = TypedImage::from_pixels_slice(1, 1, &mut a).unwrap();
        assert!(md().multiply_alpha_typed(&sv, &mut dv).is_err());
        assert!(md().divide_alpha_typed(&sv, &mut dv).is_err());
        assert!(md().multiply_alpha_inplace_typed(&mut dv).is_err());
        assert!(md().divide_alpha_inplace_typed(&mut dv).is_err());
        let mut c = [U16::new(5); 1];
        let mut cv = TypedImage::from_pixels_slice(1, 1, &mut c).unwrap();
        assert!(md().multiply_alpha_inplace_typed(&mut cv).is_err());
    }
"""

UNIT = dict(
    id="A6",
    title="MulDiv entry points: transparent colour erased, opaque identity, size mismatch rejected with the destination untouched, frame, unsupported types rejected",
    assumptions=["bounded: images of 2 pixels / a 2x2 view in a 4x3 parent; portable back-end (CpuExtensions::None)"],
    kani=dict(
        functions=[dict(file=F, fn="multiply_alpha_typed"), dict(file=F, fn="divide_alpha_typed"), dict(file=F, fn="multiply_alpha_inplace_typed"),
                   dict(file=F, fn="divide_alpha_inplace_typed"), dict(file=F, fn="is_supported")],
        modules=[SUPPORT_MODULE, dict(file=F, name="fv_a6", code=CODE)],
        harnesses=[
            dict(name="a6_transparent_colour_is_erased", kind="bounded", covers=1, timeout=900, props=["C07", "C06"],
                 bound="U8x4, 2 pixels, all contents, all replacement colours under alpha = 0",
                 claim="sources differing only in colour under alpha = 0 premultiply to identical images; transparent -> (0,0,0,0); opaque -> unchanged"),
            dict(name="a6_divide_transparent_and_opaque", kind="bounded", timeout=900, props=["C07", "C06"],
                 bound="U16x2, 2 pixels, alpha in {0, 65535}, all colours", claim="divide: alpha' = 0 gives colour 0; alpha = max is the identity"),
            dict(name="a6_rejects_size_mismatch_and_keeps_frame", kind="bounded", timeout=1200, props=["C05", "C06", "C13"],
                 bound="U8x2 source 2x2; destinations 2x3 and 3x2 (rejected) and 2x2 at (1,1) of a 4x3 parent",
                 claim="SizeIsDifferent for a taller or wider destination with nothing written; accepted call writes only the view"),
            dict(name="a6_is_supported_and_dynamic_rejection", kind="complete", timeout=300, props=["C06", "C07"], claim="is_supported == the six alpha pixel types, for all 13 pixel types"),
            dict(name="a6_types_without_alpha_rejected", kind="bounded", timeout=600, props=["C06"], bound="U8x3 and U16 1x1 images", claim="pixel types without alpha are rejected by all four typed entry points"),
        ],
    ),
)
