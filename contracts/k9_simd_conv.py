"""K9 — the real SSE4.1 / AVX2 u8 CONVOLUTION kernels == the portable kernels (C02), inside the source rows / window (C03),
with the rounding and clamping of the portable kernels (C10, C18).

    src/convolution/vertical_u8/{sse4,avx2}.rs  vs  vertical_u8/native.rs     (generic: U8, U8x2, U8x3, U8x4)
    src/convolution/u8x4/{sse4,avx2}.rs          vs  u8x4/native.rs
    src/convolution/u8x3/{sse4,avx2}.rs          vs  u8x3/native.rs
    src/convolution/u8x2/{sse4,avx2}.rs          vs  u8x2/native.rs
    (src/convolution/u8x1/{sse4,avx2}.rs: prepared, not enabled - see ENABLED_HORIZ)

Method (docs/BUILDER_K9.md): Kani executes the REAL kernel text; the x86 instructions it cannot run are replaced (kani::stub)
by the instruction models of contracts/simd_models.rs (assumed contract on the hardware, cross-checked on the host CPU by
tools/simd_model_selftest.sh).  Every harness runs the SIMD kernel and the native kernel on the same symbolic source image
with CONCRETE tap tables (route A of K7: concrete taps x ALL pixel values) and compares the two destination buffers byte by byte.

Memory: every source ROW is the tail of its own allocation (FvRows view: exactly `width` pixels, a few unrelated bytes before
them), so that a vector load behind the last pixel of ANY row is an out-of-bounds access for CBMC - stricter than one buffer
for the whole image, where only the last row would be guarded.  The destination buffers carry spare bytes behind the image
that must stay untouched; both destinations start from the same arbitrary (stale) content.

Everything except the pixel values is concrete (sizes, window starts, taps, precision): `kind="bounded"`.
"""
import os
import re

import k7_kernels

_HERE = os.path.dirname(os.path.abspath(__file__))
MODEL_SRC = open(os.path.join(_HERE, "simd_models.rs")).read()
MODELS = re.findall(r"^\s*pub fn (mm(?:256)?_\w+)", MODEL_SRC, re.M)      # top-level (alpha) models and the K9 models of `pub mod k9` (re-exported)
REPO = os.environ.get("FV_REPO", "/repo")

SUPPORT = k7_kernels.SUPPORT
FV_SIMD = dict(file="src/lib.rs", name="fv_simd", vis="pub(crate) ", code=MODEL_SRC)

# Intrinsics with a model in simd_models.rs that Kani 0.68 executes itself on their std::arch implementation (measured with the probe
# described in the K9 report: model == std::arch body for all inputs): no model is substituted for them - fewer assumptions, and the
# AVX2 kernels stay below the number of kani::stub attributes rustc can expand on one harness.
NATIVE_OK = {"mm256_inserti128_si256", "mm256_insertf128_si256", "mm256_extracti128_si256", "mm256_castsi128_si256", "mm256_castsi256_si128",
             "mm_srai_epi32", "mm256_srai_epi32", "mm_extract_epi64", "mm_shuffle_epi32"}

MAX_STUBS = 12  # rustc attribute-expansion recursion limit (measured in e4_simd_alpha.py)


def _read(rel):
    return open(os.path.join(REPO, rel)).read()


def _fn_body(rel, fn):
    t = _read(rel)
    m = re.search(r"\bfn\s+%s\s*[(<]" % re.escape(fn), t)
    if not m:
        raise RuntimeError("anchor lost: fn %s in %s" % (fn, rel))
    j = t.index("{", m.end())
    depth, k = 0, j
    while True:
        if t[k] == "{":
            depth += 1
        elif t[k] == "}":
            depth -= 1
            if depth == 0:
                return t[m.start():k + 1]
        k += 1


def stubs_for(texts, skip=()):
    """kani::stub attributes for the modelled intrinsics occurring in the given kernel texts, including those reached through
    the crate's simd_utils helpers called from these texts"""
    used = set()
    for t in texts:
        used |= set(re.findall(r"\b_(mm(?:256)?_\w+)", t))
        for h in set(re.findall(r"\bsimd_utils::(\w+)", t)):
            used |= set(re.findall(r"\b_(mm(?:256)?_\w+)", _fn_body("src/simd_utils.rs", h)))
    out = [m for m in MODELS if m in used and m not in NATIVE_OK and m not in skip]
    if len(out) > MAX_STUBS:
        raise RuntimeError("too many stubs (%d): %s" % (len(out), out))
    return "".join("    #[kani::stub(core::arch::x86_64::_%s, crate::fv_simd::%s)]\n" % (m, m) for m in out), out


# ------------------------------------------------------------------------------------------------------------------ tap tables
def rs_windows(wins):
    return "[" + ", ".join("(%d, &[%s])" % (s, ", ".join(str(k) for k in taps)) for s, taps in wins) + "]"


def gen_taps(n, p, seed, drift):
    """n pseudo-random taps (fixed LCG) in about [-0.2, 1] * 2^p / n-ish with negative lobes, adjusted so that they sum to 2^p + drift:
    a window whose taps do not sum to exactly 2^p shows a wrong rounding constant / initial accumulator in any stage."""
    x = (seed * 2654435761 + 12345) & 0xFFFFFFFF
    raw = []
    for _ in range(n):
        x = (x * 1103515245 + 12345) & 0x7FFFFFFF
        raw.append(((x >> 8) % 1200) - 200)              # -200 .. 999
    tot = sum(raw) or 1
    target = (1 << p) + drift
    taps = [r * target // tot if tot > 0 else r for r in raw]
    if tot <= 0:
        taps = [abs(r) + 1 for r in raw]
        tot = sum(taps)
        taps = [r * target // tot for r in taps]
    i = max(range(n), key=lambda j: taps[j])
    taps[i] += target - sum(taps)
    if max(abs(t) for t in taps) > 32767:
        # high precisions: 2^p cannot be reached with so few i16 taps (a real table of that precision has many small taps);
        # keep the shape, largest tap in [2^14, 2^15) as Normalizer16::new guarantees, sum < 2^p
        big = max(abs(t) for t in taps)
        lim = 32000 + seed % 700
        taps = [t * lim // big for t in taps]
    else:
        assert sum(taps) == target
    assert all(-32768 <= t <= 32767 for t in taps), (n, p, seed, taps)
    assert sum(abs(t) for t in taps) < (4 << p)          # headroom premise of C03: no i32 overflow, |v >> p| < 640
    return taps


def gen_taps_sparse(n, p, seed, drift):
    """taps for the LONG windows (6 ..= 16 taps): n - 2 distinct signed powers of two (2^(p-1), 2^(p-2), ...; every third one negative), one small odd
    dense tap and one dense tap that makes the sum 2^p + drift, placed by a seed-dependent permutation.  The product pixel x 2^j is a plain
    shift for the SAT solver, which keeps long windows tractable (dense 12 - 16 tap windows: no answer in 25 min per 8 destination bytes),
    while every tap position still carries a distinct coefficient (a permuted / skipped / repeated tap changes the result)."""
    assert 6 <= n <= 3 * p
    pw = []
    for j in range(n - 2):
        v = 1 << (p - 1 - j % p)                         # more than p taps: the powers repeat
        pw.append(-v if (j % 3 == 2) != ((j // p) % 2 == 1) else v)      # repeated powers come with the opposite sign pattern
    a = 301 + 2 * (seed % 97)
    b = (1 << p) + drift - sum(pw) - a
    while b == 0 or (abs(b) & (abs(b) - 1)) == 0 or abs(b) in [abs(v) for v in pw] or b == a:
        b += 2
    taps = pw + [a, b]
    x = (seed * 2654435761 + 977) & 0x7FFFFFFF
    for i in range(n - 1, 0, -1):                      # Fisher-Yates with the LCG
        x = (x * 1103515245 + 12345) & 0x7FFFFFFF
        j = (x >> 8) % (i + 1)
        taps[i], taps[j] = taps[j], taps[i]
    assert all(-32768 <= v <= 32767 for v in taps) and (len(set(taps)) == n or n > p + 2)
    assert sum(abs(v) for v in taps) < (4 << p) and sum(v for v in taps if v > 0) >= (1 << p)
    return taps


def groups_of(p, specs, seed0):
    """specs: [(start, len) | (start, [taps])] -> groups of <= 2 windows (start, taps)"""
    wins = []
    drifts = [3, -5, 700, -650, 0, 41, -37, 1234, -1, 1]
    for i, (s, l) in enumerate(specs):
        wins.append((s, l if isinstance(l, list) else (gen_taps if l < 6 else gen_taps_sparse)(l, p, seed0 + 7 * i, drifts[i % len(drifts)])))
    return [wins[i:i + 2] for i in range(0, len(wins), 2)]


# CBMC keeps heap objects of at most 64 bytes field-sensitive (constant propagation of the window table: start, Vec pointer / length);
# a Normalizer16 with 3 windows (3 x 32 bytes) already makes every loop bound "symbolic" and the unwinding explodes (measured: 12 GB).
# Hence at most TWO windows per Normalizer16; a harness runs the kernels once per GROUP of <= 2 windows on the same source image.

K9S = dict(file="src/lib.rs", name="fv_k9s", vis="pub(crate) ", code="""
    use crate::pixels::InnerPixel;

    /// An image whose H rows are separate allocations (row i = the LAST `w` pixels of its own byte array): an access behind the end
    /// of any row leaves the allocation and is reported by CBMC.
    pub struct FvRows<'a, P: InnerPixel, const H: usize> { pub w: u32, pub rows: [&'a [P]; H] }
    unsafe impl<'a, P: InnerPixel, const H: usize> crate::ImageView for FvRows<'a, P, H> {
        type Pixel = P;
        fn width(&self) -> u32 { self.w }
        fn height(&self) -> u32 { H as u32 }
        fn iter_rows(&self, start_row: u32) -> impl Iterator<Item = &[P]> {
            let s = if (start_row as usize) < H { start_row as usize } else { H };
            self.rows[s..].iter().copied()
        }
    }
    /// the last `w` pixels of `raw` as a row of pixels (u8 pixels have alignment 1)
    pub fn row_of<P: InnerPixel<Component = u8>>(raw: &[u8], w: u32) -> &[P] {
        let n = w as usize * P::count_of_components();
        unsafe { core::slice::from_raw_parts(raw.as_ptr().add(raw.len() - n) as *const P, w as usize) }
    }
    /// SIMD and native results byte-identical over the image bytes; spare bytes behind the image untouched in both
    pub fn same_output(img_bytes: usize, stale: &[u8], d_simd: &[u8], d_nat: &[u8]) {
        assert!(d_simd.len() == stale.len() && d_nat.len() == stale.len() && stale.len() > img_bytes);
        let mut i = 0;
        while i < stale.len() {
            if i < img_bytes {
                assert!(d_simd[i] == d_nat[i]);
            } else {
                assert!(d_simd[i] == stale[i]);
                assert!(d_nat[i] == stale[i]);
            }
            i += 1;
        }
    }
""")

# The intrinsics of NATIVE_OK are not stubbed: Kani runs their std::arch bodies.  This module ties that choice down: for every input the std::arch body
# (as executed by Kani) equals the model of simd_models.rs - which the self-test in turn compares with the hardware.
K9N = dict(file="src/lib.rs", name="fv_k9n", code="""
    use core::arch::x86_64::*;
    use core::mem::transmute;
    use crate::fv_simd::*;
    fn eq128(a: __m128i, b: __m128i) -> bool { let (a, b): ([u64; 2], [u64; 2]) = unsafe { (transmute(a), transmute(b)) }; (a[0] == b[0]) & (a[1] == b[1]) }
    fn eq256(a: __m256i, b: __m256i) -> bool { let (a, b): ([u64; 4], [u64; 4]) = unsafe { (transmute(a), transmute(b)) }; (a[0] == b[0]) & (a[1] == b[1]) & (a[2] == b[2]) & (a[3] == b[3]) }
    fn any128() -> __m128i { unsafe { transmute(kani::any::<[u64; 2]>()) } }
    fn any256() -> __m256i { unsafe { transmute(kani::any::<[u64; 4]>()) } }

    #[kani::proof]
    fn k9_native_srai() {
        let a = any128();
        let b = any256();
        kani::cover!(true);
        unsafe {
""" + "".join("            assert!(eq128(_mm_srai_epi32::<%d>(a), mm_srai_epi32::<%d>(a)));\n            assert!(eq256(_mm256_srai_epi32::<%d>(b), mm256_srai_epi32::<%d>(b)));\n" % (p, p, p, p) for p in range(12, 22)) + """        }
    }

    #[kani::proof]
    fn k9_native_lanes() {
        let a = any256();
        let b = any128();
        kani::cover!(true);
        unsafe {
            assert!(eq256(_mm256_inserti128_si256::<1>(a, b), mm256_inserti128_si256::<1>(a, b)));
            assert!(eq256(_mm256_inserti128_si256::<0>(a, b), mm256_inserti128_si256::<0>(a, b)));
            assert!(eq256(_mm256_insertf128_si256::<1>(a, b), mm256_insertf128_si256::<1>(a, b)));
            assert!(eq256(_mm256_insertf128_si256::<0>(a, b), mm256_insertf128_si256::<0>(a, b)));
            assert!(eq128(_mm256_extracti128_si256::<0>(a), mm256_extracti128_si256::<0>(a)));
            assert!(eq128(_mm256_extracti128_si256::<1>(a), mm256_extracti128_si256::<1>(a)));
            assert!(eq128(_mm256_castsi256_si128(a), mm256_castsi256_si128(a)));
            // cast xmm -> ymm as the kernels use it: low half kept, the undefined upper half overwritten by VINSERT*128 before use
            assert!(eq128(_mm256_extracti128_si256::<0>(_mm256_castsi128_si256(b)), b));
            assert!(eq256(_mm256_inserti128_si256::<1>(_mm256_castsi128_si256(b), b), mm256_inserti128_si256::<1>(mm256_castsi128_si256(b), b)));
            assert!(eq256(_mm256_insertf128_si256::<1>(_mm256_castsi128_si256(b), b), mm256_insertf128_si256::<1>(mm256_castsi128_si256(b), b)));
            assert!(_mm_extract_epi64::<0>(b) == mm_extract_epi64::<0>(b));
            assert!(_mm_extract_epi64::<1>(b) == mm_extract_epi64::<1>(b));
        }
    }
""")
K9N_HS = [
    dict(name="k9_native_srai", kind="bounded", covers=1, timeout=600, props=["C02"],
         bound="shift counts 12 ..= 21 (every PRECISION the dispatcher instantiates for a regular filter), ALL vector values",
         claim="_mm_srai_epi32 / _mm256_srai_epi32 as executed by Kani (std::arch body, not stubbed in K9) == the PSRAD model of simd_models.rs"),
    dict(name="k9_native_lanes", kind="complete", covers=1, timeout=600, props=["C02"],
         claim="_mm256_inserti128_si256, _mm256_insertf128_si256, _mm256_extracti128_si256, _mm256_castsi256_si128, _mm256_castsi128_si256 (low half, and in the cast + insert "
               "pattern of the kernels), _mm_extract_epi64 as executed by Kani (std::arch bodies, not stubbed in K9) == their models of simd_models.rs, ALL vector values"),
]

SPARE = 5
PAD = 3
PROPS = ["C02", "C03", "C10", "C18"]


def src_decl(ty, cc, sw, sh):
    s = "".join("        let r%d: [u8; %d] = kani::any();\n" % (i, PAD + sw * cc) for i in range(sh))
    s += "        let src = FvRows::<%s, %d> { w: %d, rows: [%s] };\n" % (ty, sh, sw, ", ".join("row_of(&r%d, %d)" % (i, sw) for i in range(sh)))
    return s


# ------------------------------------------------------------------------------------------------------------------ vertical
VERT_COMMON = """
    use crate::convolution::optimisations::fv_norm::*;
    use crate::fv_k9s::*;
    use crate::images::TypedImage;
    use crate::pixels::{U8, U8x2, U8x3, U8x4};

    /// SIMD and native vertical kernels on the same source; destination dw x (number of windows), source columns offset .. offset + dw
    fn run<T: InnerPixel<Component = u8>, const SH: usize>(src: &FvRows<T, SH>, dw: u32, offset: u32, n: &Normalizer16, stale: &[u8], d_simd: &mut [u8], d_nat: &mut [u8]) {
        let cc = T::count_of_components();
        let dh = n.chunks().len() as u32;
        let dn = (dw * dh) as usize;
        {
            let dpx: &mut [T] = unsafe { core::slice::from_raw_parts_mut(d_simd.as_mut_ptr() as *mut T, dn) };
            let mut d = TypedImage::from_pixels_slice(dw, dh, dpx).unwrap();
            vert_convolution(src, &mut d, offset, n);
        }
        {
            let dpx: &mut [T] = unsafe { core::slice::from_raw_parts_mut(d_nat.as_mut_ptr() as *mut T, dn) };
            let mut d = TypedImage::from_pixels_slice(dw, dh, dpx).unwrap();
            crate::convolution::vertical_u8::native::vert_convolution(src, &mut d, offset, n);
        }
        same_output(dn * cc, stale, d_simd, d_nat);
    }
"""

# (case name, pixel type, cc, dst width in pixels, column offset, src height, precision, windows (start row, number of taps | taps))
# dst row = dw*cc components: 32-chunks, then 8-chunks, then ONE 4-chunk, then the native tail of 1..3 components (called with the kernel's own rounding constant).
# Window lengths: 2 = the two-rows loop alone, 3 = loop + odd last row, 1 = odd last row alone, 5 = two loop iterations + odd row.
# One window per harness for the 47-component row (cost: 5 - 15 s of SAT time per destination byte).
VERT_CASES = [
    ("u8_w47_t2", "U8", 1, 47, 1, 3, 14, [(1, [12288, 4099])]),          # 32 + 8 + 4 + 3 components; taps with few bits set (cheap for SAT), sum 2^14 + 3
    ("u8_w47_t3", "U8", 1, 47, 0, 3, 14, [(0, [-2048, 16448, 1979])]),   # sum 2^14 - 5
    ("u8_w47_t1", "U8", 1, 47, 2, 3, 12, [(2, [4099])]),
    ("u8_w7_t2", "U8", 1, 7, 0, 3, 14, [(0, [12288, 4099])]),             # (added by the lead for the quick tier) one 4-chunk + native tail of 3; sum 2^14 + 3
    ("u8x4_w3", "U8x4", 4, 3, 1, 5, 12, [(0, 5), (3, [32767, 32767])]),    # 8 + 4; second window: saturation of PACKSSDW / PACKUSWB against the clamp of clip
    ("u8x3_w5", "U8x3", 3, 5, 0, 3, 13, [(0, 3)]),           # 8 + 4 + 3
    ("u8x2_w9", "U8x2", 2, 9, 2, 3, 15, [(1, 2)]),           # 8 + 8 + 2
]


def call_groups(run, p, groups, cover_first=True):
    calls = ""
    for gi, g in enumerate(groups):
        calls += """        {
            let n = fv_norm16(%d, &%s);
            let mut d_simd = stale;
            let mut d_nat = stale;
            %s
%s        }
""" % (p, rs_windows(g), run, ("            kani::cover!(d_simd[0] > %d);\n            kani::cover!(d_simd[0] == 0);\n" % (250 if p <= 15 else 2)) if gi == 0 and cover_first else "")
    return calls


def vert_module(isa):
    F = "src/convolution/vertical_u8/%s.rs" % isa
    stubs, used = stubs_for([_fn_body(F, "vert_convolution_into_one_row")])
    code = VERT_COMMON
    hs = []
    for name, ty, cc, dw, off, sh, p, specs in VERT_CASES:
        groups = groups_of(p, specs, 100 + dw)
        sw = dw + off
        dn = dw * 2 * cc + SPARE
        k = dict(isa=isa, name=name, stubs=stubs, src=src_decl(ty, cc, sw, sh), dn=dn, unw=dn + 3,
                 calls=call_groups("run::<%s, %d>(&src, %d, %d, &n, &stale, &mut d_simd, &mut d_nat);" % (ty, sh, dw, off), p, groups))
        code += """
    #[kani::proof]
    #[kani::unwind(%(unw)d)]
%(stubs)s    fn k9_vertical_%(isa)s_%(name)s() {
%(src)s        let stale: [u8; %(dn)d] = kani::any();
%(calls)s    }
""" % k
        hs.append(dict(name="k9_vertical_%s_%s" % (isa, name), kind="bounded", covers=2, timeout=1500, props=PROPS,
                       bound="%s source %dx%d (every row the tail of its own allocation), destination %d columns at column offset %d, one destination row per window; precision %d, "
                             "windows (start row, taps) = %s (run in groups of <= 2 windows); ALL pixel values; stale destination arbitrary"
                             % (ty, sw, sh, dw, off, p, "; ".join(rs_windows(g) for g in groups)),
                       claim="vertical_u8::%s::vert_convolution<%s> == vertical_u8::native::vert_convolution byte for byte (32/8/4-component stages, odd and even window lengths, "
                             "native tail with its own rounding constant), no access outside any source row, spare destination bytes untouched" % (isa, ty)))
    return (dict(file=F, name="fv_k9", code=code), hs,
            [dict(file=F, fn="vert_convolution"), dict(file=F, fn="vert_convolution_p"), dict(file=F, fn="vert_convolution_into_one_row")], used)


# ------------------------------------------------------------------------------------------------------------------ horizontal
# Cost model (measured): every destination byte costs CBMC 5 - 15 s of SAT time (two differently associated sums of products plus the
# memory model of the loads / stores), growing with the number of taps.  The horizontal kernels are therefore checked in three layers:
#   four_rows_* : horiz_convolution_four_rows::<14> called directly (4 source rows, 4 destination rows), window lengths / positions reaching every tap stage
#   one_row_*   : horiz_convolution_one_row::<14> called directly (1 row), ditto (long windows are affordable here: 1 row)
#   dispatch_*  : horiz_convolution (constify_imm8! dispatcher, iter_4_rows pass + `height % 4` leftover rows) with short windows for heights 3, 5, 6,
#                 and every precision 12 ..= 21
HORIZ_COMMON = """
    use crate::convolution::optimisations::fv_norm::*;
    use crate::fv_k9s::*;
    use crate::images::TypedImage;

    fn dst_image<'a>(buf: &'a mut [u8], dw: u32, dh: u32) -> TypedImage<'a, %(ty)s> {
        let dpx: &mut [%(ty)s] = unsafe { core::slice::from_raw_parts_mut(buf.as_mut_ptr() as *mut %(ty)s, (dw * dh) as usize) };
        TypedImage::from_pixels_slice(dw, dh, dpx).unwrap()
    }

    /// the dispatcher: SIMD and native horizontal kernels on source rows offset .. offset + dh; destination (number of windows) x dh
    fn run<const SH: usize>(src: &FvRows<%(ty)s, SH>, dh: u32, offset: u32, n: &Normalizer16, stale: &[u8], d_simd: &mut [u8], d_nat: &mut [u8]) {
        let dw = n.chunks().len() as u32;
        horiz_convolution(src, &mut dst_image(d_simd, dw, dh), offset, n);
        crate::convolution::%(d)s::native::horiz_convolution(src, &mut dst_image(d_nat, dw, dh), offset, n);
        same_output((dw * dh) as usize * %(cc)d, stale, d_simd, d_nat);
    }

    /// horiz_convolution_four_rows::<14> on the 4 rows of `src` against the native kernel on the same rows
    fn run4(src: &FvRows<%(ty)s, 4>, n: &Normalizer16, stale: &[u8], d_simd: &mut [u8], d_nat: &mut [u8]) {
        let dw = n.chunks().len();
        {
            let p = d_simd.as_mut_ptr() as *mut %(ty)s;
            let rows: [&mut [%(ty)s]; 4] = unsafe { [core::slice::from_raw_parts_mut(p, dw), core::slice::from_raw_parts_mut(p.add(dw), dw),
                                                   core::slice::from_raw_parts_mut(p.add(2 * dw), dw), core::slice::from_raw_parts_mut(p.add(3 * dw), dw)] };
            unsafe { horiz_convolution_four_rows%(tf)s(src.rows, rows, n) };
        }
        crate::convolution::%(d)s::native::horiz_convolution(src, &mut dst_image(d_nat, dw as u32, 4), 0, n);
        same_output(dw * 4 * %(cc)d, stale, d_simd, d_nat);
    }

    /// horiz_convolution_one_row::<14> on the single row of `src` against the native kernel
    fn run1(src: &FvRows<%(ty)s, 1>, n: &Normalizer16, stale: &[u8], d_simd: &mut [u8], d_nat: &mut [u8]) {
        let dw = n.chunks().len();
        {
            let row: &mut [%(ty)s] = unsafe { core::slice::from_raw_parts_mut(d_simd.as_mut_ptr() as *mut %(ty)s, dw) };
            unsafe { horiz_convolution_one_row%(tf)s(src.rows[0], row, n) };
        }
        crate::convolution::%(d)s::native::horiz_convolution(src, &mut dst_image(d_nat, dw as u32, 1), 0, n);
        same_output(dw * %(cc)d, stale, d_simd, d_nat);
    }
"""

HSW = 16  # source width of the horizontal cases (u8x2: 32)
HUGE = (14, [32767, 32767])          # saturation of PACKSSDW / PACKUSWB against the clamp of Normalizer16::clip
HUGE32 = (30, [32767, 32767])
HORIZ = dict(
    # u8x4: tap stages 4 / 2 / 1 (four rows), 8 / 4 / 2 / 1 (one row; AVX2: < 8 taps -> 2 / 1 only, >= 8 taps -> 8 / 4 with the halved initial accumulator, then 2 / 1).
    # Loads are whole pixels (16 / 8 / 4 bytes = 4 / 2 / 1 pixels): windows ending at the last pixel of the row guard the row end.
    u8x4=dict(ty="U8x4", cc=4,
              four=[(9, 7), (7, 9), (14, 2), (15, 1), (13, 3), HUGE],
              one=[(1, 15), (7, 9), (9, 7), (13, 3), (4, 12), (0, 16), (15, 1), HUGE],
              one_per=1),
    # u8x3: vector loads of 16 / 8 bytes (5 1/3 and 2 2/3 pixels) are guarded by the distance to the row end: x < W - 5 (4 taps), x < W - 2 (2 taps),
    # AVX2 one row: x < W - 9 (8 taps); the rest goes tap by tap.  Windows at the start, across every guard and at the very end of the row.
    u8x3=dict(ty="U8x3", cc=3,
              four=[(0, 7), (8, 8), (13, 3), (11, 4), (10, 5), (14, 2)],
              one=[(0, 16), (6, 10), (7, 9), (3, 12), (0, 7), (13, 3), (8, 8), (11, 4), (10, 5), (14, 2)],
              one_per=2),
    # u8x2 (precision is a run-time value here): tap stages 8 / 4 / 2 / 1 (four rows), 8 / 4 / up to 3 single taps (one row; AVX2: >= 16 taps -> 16 / 8 first,
    # with a quarter of the rounding constant per accumulator lane).  Loads are whole pixels (16 / 8 / 4 / 2 bytes = 8 / 4 / 2 / 1 pixels).
    u8x2=dict(ty="U8x2", cc=2, sw=32, tf="", four_split_first=True,
              four=[(17, 15), (23, 9), (29, 3), (26, 6), (31, 1), HUGE32],
              one=[(17, 15), (23, 9), (30, 2), (26, 6), (31, 1), HUGE32],
              # NOT covered: the >= 16-tap path of the AVX2 one-row kernel (16 / 8 tap stages, 1 << (precision - 3) per lane).  Measured: windows (1, 31 taps) + (8, 24 taps)
              # in one harness: SSE4.1 passes after 1515 s (over the 1500 s limit), AVX2 no answer in 1500 s; a single 16-tap window: no answer in 14 min.
              one_per=1),
    # u8x1 (run-time precision): SSE4.1 8 taps per step, then ONE step of 4, then single taps in scalar code (<= 3); AVX2 16 per step, then ONE step of 8, then
    # single taps (<= 7); the lanes are summed horizontally (AVX2: 1/8 of the rounding constant per lane).  Loads of 16 / 8 / 4 bytes = pixels.
    u8x1=dict(ty="U8", cc=1, sw=32, tf="", helpers=dict(avx2=["hsum_i32x8_avx2", "hsum_epi32_avx"]),
              four=[(17, 15), (9, 23), (29, 3), (1, 31), (31, 1), HUGE32, (20, 12), (25, 7)],
              one=[(17, 15), (9, 23), (29, 3), (1, 31), (31, 1), HUGE32, (20, 12), (25, 7), (0, 32), (24, 8)],
              one_per=3),
)
DISPATCH_CASES = [("h5", 5, 1, 6, 14), ("h6", 6, 0, 6, 12), ("h3", 3, 1, 4, 21)]      # (case, dst height, first source row, source height, precision)
PRECISIONS = list(range(12, 22))


def harness_text(name, stubs, src, dn, calls):
    return """
    #[kani::proof]
    #[kani::unwind(%d)]
%s    fn %s() {
%s        let stale: [u8; %d] = kani::any();
%s    }
""" % (max(dn, 34) + 3, stubs, name, src, dn, calls)      # unwind: longest loop = the taps of a window (<= 32) / the bytes compared


def horiz_module(d, isa):
    F = "src/convolution/%s/%s.rs" % (d, isa)
    info = HORIZ[d]
    ty, cc = info["ty"], info["cc"]
    HSW = info.get("sw", 16)
    helpers = info.get("helpers", {}).get(isa, [])       # private helper functions of the kernel file called by both variants
    hb = [_fn_body(F, h) for h in helpers]
    s4, u4 = stubs_for([_fn_body(F, "horiz_convolution_four_rows")] + hb)
    s1, u1 = stubs_for([_fn_body(F, "horiz_convolution_one_row")] + hb)
    sb, ub = stubs_for([_fn_body(F, "horiz_convolution_four_rows"), _fn_body(F, "horiz_convolution_one_row")] + hb)
    code = HORIZ_COMMON % dict(ty=ty, d=d, cc=cc, tf=info.get("tf", "::<14>"))
    hs = []
    # --- four rows, direct
    groups = [(str(gi), g) for gi, g in enumerate(groups_of(14, info["four"], 300))]
    if info.get("four_split_first"):                    # the long windows one per harness (u8x2: 1470 s for the pair on a loaded machine)
        groups = [("0a", groups[0][1][:1]), ("0b", groups[0][1][1:])] + groups[1:]
    for gi, g in groups:
        name = "k9_%s_%s_four_rows_w%s" % (d, isa, gi)
        dn = 2 * 4 * cc + SPARE
        code += harness_text(name, s4, src_decl(ty, cc, HSW, 4), dn, call_groups("run4(&src, &n, &stale, &mut d_simd, &mut d_nat);", 14, [g]))
        hs.append(dict(name=name, kind="bounded", covers=2, timeout=1500, props=PROPS,
                       bound="%s, 4 source rows of %d pixels (each the tail of its own allocation); precision 14, windows (start, taps) = %s; ALL pixel values; stale destination arbitrary" % (ty, HSW, rs_windows(g)),
                       claim="%s::%s::horiz_convolution_four_rows::<14> == %s::native::horiz_convolution on the same 4 rows, byte for byte; no access outside any source row; spare destination bytes untouched" % (d, isa, d)))
    # --- one row, direct
    groups = groups_of(14, info["one"], 400)
    per = info["one_per"]
    for part in range(0, len(groups), per):
        gs = groups[part:part + per]
        name = "k9_%s_%s_one_row_w%d" % (d, isa, part // per)
        dn = 2 * cc + SPARE
        code += harness_text(name, s1, src_decl(ty, cc, HSW, 1), dn, call_groups("run1(&src, &n, &stale, &mut d_simd, &mut d_nat);", 14, gs))
        hs.append(dict(name=name, kind="bounded", covers=2, timeout=1500, props=PROPS,
                       bound="%s, 1 source row of %d pixels (the tail of its allocation); precision 14, windows (start, taps) = %s; ALL pixel values; stale destination arbitrary" % (ty, HSW, "; ".join(rs_windows(g) for g in gs)),
                       claim="%s::%s::horiz_convolution_one_row::<14> == %s::native::horiz_convolution on the same row, byte for byte; no access outside the source row; spare destination bytes untouched" % (d, isa, d)))
    # --- dispatcher: row routing for heights 5, 6, 3
    for case, dh, off, sh, p in DISPATCH_CASES:
        g = groups_of(p, [(HSW - 2, 2), (HSW - 1, 1)], 600)
        name = "k9_%s_%s_dispatch_%s" % (d, isa, case)
        dn = 2 * dh * cc + SPARE
        code += harness_text(name, sb, src_decl(ty, cc, HSW, sh), dn, call_groups("run::<%d>(&src, %d, %d, &n, &stale, &mut d_simd, &mut d_nat);" % (sh, dh, off), p, g))
        hs.append(dict(name=name, kind="bounded", covers=2, timeout=1500, props=PROPS,
                       bound="%s source %dx%d, destination rows = source rows %d .. %d (%d four-row pass(es) + %d leftover row(s)); precision %d, windows %s; ALL pixel values" % (ty, HSW, sh, off, off + dh, dh // 4, dh % 4, p, rs_windows(g[0])),
                       claim="%s::%s::horiz_convolution == native: the four-row passes and the `height %% 4` leftover rows take the right source rows and write the right destination rows" % (d, isa)))
    # --- dispatcher: every precision the dispatcher instantiates for a regular filter.  One destination row (the one-row variant only): what is checked is
    # that arm p of constify_imm8! exists and runs the kernels with PRECISION = p.  (Five rows x five precisions in one harness were measured: 6 - 13 GB.)
    # The four-rows variant at other precisions than 14: dispatch_h6 (12) and dispatch_h3 (21).
    dh, off, sh = 1, 0, 1
    dn = dh * cc + SPARE
    name = "k9_%s_%s_precisions" % (d, isa)
    calls = ""
    for p in PRECISIONS:
        t0 = min(1 << (p - 1), 1 << 14) + 1
        wins = [[(HSW - 2, [t0, -((t0 - 1) // 4)])]]
        calls += call_groups("run::<%d>(&src, %d, %d, &n, &stale, &mut d_simd, &mut d_nat);" % (sh, dh, off), p, wins, cover_first=False)
    calls += "        kani::cover!(r0[%d] == 255 && r0[%d] == 0);\n        kani::cover!(r0[%d] == 7);\n" % (PAD + (HSW - 2) * cc, PAD + (HSW - 1) * cc, PAD + (HSW - 1) * cc)
    code += harness_text(name, sb, src_decl(ty, cc, HSW, sh), dn, calls)
    hs.append(dict(name=name, kind="bounded", covers=2, timeout=1500, props=PROPS,
                   bound="%s source %dx1, destination 1x1; for EVERY precision 12 ..= 21 one window of 2 taps [min(2^(p-1), 2^14) + 1, -min(2^(p-3), 2^12)] ending at the last pixel; ALL pixel values" % (ty, HSW),
                   claim="%s::%s::horiz_convolution == native for every arm 12 ..= 21 of the dispatcher (constify_imm8!) - the arm exists and instantiates the kernels with PRECISION = p (one-row variant)" % (d, isa)))
    return (dict(file=F, name="fv_k9", code=code), hs,
            [dict(file=F, fn=f) for f in ["horiz_convolution"] + (["horiz_convolution_p"] if "tf" not in info else ["set_dst_pixel"] if d == "u8x2" else helpers) + ["horiz_convolution_four_rows", "horiz_convolution_one_row"]],
            set(u4) | set(u1) | set(ub))


_mods, _hs, _fns, _used = [SUPPORT, FV_SIMD, K9S, K9N], list(K9N_HS), [], set()
for _isa in ("sse4", "avx2"):
    _m, _h, _f, _u = vert_module(_isa)
    _mods.append(_m)
    _hs += _h
    _fns += _f
    _used |= set(_u)
# u8x1 is prepared (HORIZ["u8x1"]) but NOT enabled: its kernels keep 4 (SSE4.1) / 8 (AVX2) partial sums per destination byte and add them horizontally at the end,
# and SAT needs far longer to equate that with the sequential sum of the native kernel - measured: four_rows with windows of 15 + 23 taps, 3 + 31 taps: CBMC timeout at
# 1500 s each; only the 1-tap / 2-tap group finished (80 s).  It needs one short window per harness (and probably a lemma-style decomposition) - not done.
ENABLED_HORIZ = ("u8x4", "u8x3", "u8x2")
for _d in ENABLED_HORIZ:
    for _isa in ("sse4", "avx2"):
        _m, _h, _f, _u = horiz_module(_d, _isa)
        _mods.append(_m)
        _hs += _h
        _fns += _f
        _used |= set(_u)

UNITS = [dict(
    id="K9",
    title="SSE4.1 / AVX2 u8 convolution kernels == native kernels byte for byte, reads inside the source rows; modulo E4 instruction models",
    assumptions=["E4: the instruction models of contracts/simd_models.rs substituted in these harnesses (%s) are the semantics of the x86 instructions; "
                 "cross-checked on the host CPU by tools/simd_model_selftest.sh" % ", ".join("_" + m for m in MODELS if m in _used),
                 "intrinsics not listed run on Kani's own semantics of their std::arch implementation (loads/stores, set*, unpack*, cvtsi*, setzero)",
                 "bounded / sampled: concrete tap tables and geometry per harness (stated in each bound), ALL pixel values; "
                 "the source view is a test view with one allocation per row (the kernels are generic in the ImageView)"],
    kani=dict(functions=_fns, modules=_mods, harnesses=_hs),
)]


# --- tiers (set by the lead): a representative subset runs in the quick tier, the full list of 78 harnesses in the thorough tier ---------
K9_QUICK = {
    "k9_native_srai", "k9_native_lanes",
    "k9_vertical_sse4_u8_w7_t2", "k9_vertical_avx2_u8_w7_t2",
    "k9_u8x4_avx2_one_row_w0", "k9_u8x4_sse4_one_row_w1", "k9_u8x4_avx2_dispatch_h3",
    "k9_u8x3_sse4_one_row_w2", "k9_u8x3_avx2_one_row_w2",
    "k9_u8x2_sse4_one_row_w2", "k9_u8x2_avx2_one_row_w1",
}
for _u in UNITS:
    for _h in _u["kani"]["harnesses"]:
        _h["tier"] = "quick" if _h["name"] in K9_QUICK else "thorough"
        _h["mem"] = "mid"        # 1 - 3 GB of kani-driver memory per harness, not released within one invocation (measured): batches of 8 in the thorough tier
