use fast_image_resize as fr;
use fr::images::Image;
use fr::{CpuExtensions, MulDiv, PixelType};

fn run(pt: PixelType, comps: usize, ext: CpuExtensions, data: &[u16]) -> Vec<u16> {
    let w = (data.len() / comps) as u32;
    let bytes: Vec<u8> = data.iter().flat_map(|v| v.to_le_bytes()).collect();
    let mut img = Image::from_vec_u8(w, 1, bytes, pt).unwrap();
    let mut md = MulDiv::new();
    unsafe { md.set_cpu_extensions(ext); }
    md.divide_alpha_inplace(&mut img).unwrap();
    img.buffer().chunks(2).map(|c| u16::from_le_bytes([c[0], c[1]])).collect()
}

#[test]
fn simd_divide_matches_native() {
    let mut seed = 12345u64;
    let mut next = || { seed ^= seed << 13; seed ^= seed >> 7; seed ^= seed << 17; seed };
    for (pt, comps) in [(PixelType::U16x2, 2usize), (PixelType::U16x4, 4usize)] {
        let mut data = Vec::new();
        for i in 0..4000 {
            let a = match i % 8 { 0 => 0, 1 => 1, 2 => 2, 3 => 65535, 4 => 256, _ => (next() % 65536) as u16 };
            for _ in 0..comps - 1 { data.push(match i % 5 { 0 => 65535, 1 => 32769, _ => (next() % 65536) as u16 }); }
            data.push(a);
        }
        let n = run(pt, comps, CpuExtensions::None, &data);
        for ext in [CpuExtensions::Sse4_1, CpuExtensions::Avx2] {
            let s = run(pt, comps, ext, &data);
            for (i, (x, y)) in n.iter().zip(s.iter()).enumerate() {
                assert!((*x as i32 - *y as i32).abs() <= 1, "{:?} {:?} idx {} native {} simd {} src {:?}", pt, ext, i, x, y, &data[i / comps * comps..i / comps * comps + comps]);
            }
        }
    }
}
