// Native demonstration (public API only) of the defect behind obligation P::k8_shift_horizontal_bounds (property C03):
// on the pinned tree this test panics in a debug build with "attempt to subtract with overflow" at `b.start -= x_first`
// (release builds read outside the temporary image instead). Drop it into /repo/tests/ and run
//     cargo test --offline --test custom_filter_zero_gap
use fast_image_resize as fr;
use fr::images::Image;
use fr::{Filter, FilterType, PixelType, ResizeAlg, ResizeOptions, Resizer};

fn holey(t: f64) -> f64 {
    if t > 0.2 && t < 0.3 { 0.0 } else if t.abs() < 1.0 { 1.0 - t.abs() } else { 0.0 }
}

#[test]
fn custom_filter_with_a_zero_gap() {
    let src = Image::from_vec_u8(4, 4, (0..16u8).map(|v| v * 10).collect(), PixelType::U8).unwrap();
    let mut dst = Image::new(8, 8, PixelType::U8);
    let filter = Filter::new("holey", holey, 1.0).unwrap();
    let opts = ResizeOptions::new().resize_alg(ResizeAlg::Convolution(FilterType::Custom(filter)));
    let mut r = Resizer::new();
    unsafe { r.set_cpu_extensions(fr::CpuExtensions::None); }
    r.resize(&src, &mut dst, &opts).unwrap();
}
