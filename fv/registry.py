"""Load contract units (contracts/*.py, each defining UNIT) and the
property -> units table (contracts/properties_map.py)."""
import glob
import importlib.util
import os

ROOT = os.path.dirname(os.path.dirname(os.path.abspath(__file__)))


def _load(path):
    import sys
    cdir = os.path.join(ROOT, "contracts")
    if cdir not in sys.path:
        sys.path.insert(0, cdir)
    name = "fv_contract_" + os.path.splitext(os.path.basename(path))[0]
    spec = importlib.util.spec_from_file_location(name, path)
    mod = importlib.util.module_from_spec(spec)
    spec.loader.exec_module(mod)
    return mod


def units():
    res = {}
    for p in sorted(glob.glob(os.path.join(ROOT, "contracts", "*.py"))):
        if os.path.basename(p) in ("properties_map.py", "__init__.py", "common.py") or os.path.basename(p).endswith("_mech.py") or (os.path.basename(p).startswith("zz_") and not os.environ.get("FV_EXP")):
            continue
        mod = _load(p)
        for u in getattr(mod, "UNITS", [getattr(mod, "UNIT", None)]):
            if u is None:
                continue
            if u["id"] in res:
                raise RuntimeError("duplicate unit id %s" % u["id"])
            u["path"] = os.path.relpath(p, ROOT)
            _link(u)
            res[u["id"]] = u
    return res


def _link(u):
    """Record, for every Kani harness, the file and child module it lives in."""
    import re
    k = u.get("kani")
    if not k:
        return
    for h in k.get("harnesses", []):
        for md in k.get("modules", []):
            if re.search(r"\bfn\s+%s\s*\(" % re.escape(h["name"]), md["code"]):
                h["file"], h["module"] = md["file"], md["name"]
                parts = md["file"][len("src/"):-len(".rs")].split("/")
                if parts[-1] in ("mod", "lib"):
                    parts = parts[:-1]
                h["full"] = "::".join(parts + [md["name"], h["name"]])
        if "file" not in h:
            raise RuntimeError("harness %s of unit %s not found in any module" % (h["name"], u["id"]))


def props():
    return _load(os.path.join(ROOT, "contracts", "properties_map.py")).PROPS
