"""E2/E3/E4: weave an additive cfg(kani) overlay into a scratch copy of /repo
and run cargo-kani on it.

A unit's `kani` spec (python dict, see contracts/*.py):

  modules : [ {file, name, code} ]   `#[cfg(kani)] mod <name> { use super::*; <code> }` appended to <file>
  attrs   : [ {file, fn, within?, nth?, lines:[..]} ]   attribute lines inserted directly above `fn`
  harnesses : [ {
      name,                         harness fn name (unique over the whole overlay)
      kind: "complete"|"bounded",   complete = loop-free/full-domain or function contract; bounded = E3
      bound: str                    (bounded) the bound in words
      claim: str                    what the harness states
      timeout: seconds
      tier: "quick"|"thorough"
      covers: int                   number of kani::cover! that must be SATISFIED (vacuity guard)
    } ]
"""
import json
import os
import re
import shutil
import signal
import subprocess
import threading
import time

from . import sources

REPO = sources.REPO
KANI_FLAGS = ["-Z", "unstable-options", "-Z", "function-contracts", "-Z", "stubbing"]
RSS_LIMIT_KB = int(os.environ.get("FV_RSS_LIMIT_GB", "12")) * 1024 * 1024


class WeaveError(Exception):
    pass


def _manifest():
    """Generate a minimal manifest from /repo/Cargo.toml: same package name,
    version, edition and the non-optional [dependencies]; benches, dev-deps,
    optional deps and the workspace are dropped (Kani cannot resolve them
    offline)."""
    real = open(os.path.join(REPO, "Cargo.toml")).read()
    name = re.search(r'^name\s*=\s*"([^"]+)"', real, re.M).group(1)
    ver = re.search(r'^version\s*=\s*"([^"]+)"', real, re.M).group(1)
    ed = re.search(r'^edition\s*=\s*"([^"]+)"', real, re.M).group(1)
    deps = []
    m = re.search(r"^\[dependencies\]\s*$(.*?)^\[", real, re.M | re.S)
    for ln in m.group(1).splitlines():
        ln = ln.strip()
        if not ln or ln.startswith("#") or "optional = true" in ln:
            continue
        deps.append(ln)
    return ("[package]\nname = \"%s\"\nversion = \"%s\"\nedition = \"%s\"\n\n[dependencies]\n%s\n\n"
            "[features]\nonly_u8x4 = []\n\n[lints.rust]\nunexpected_cfgs = { level = \"allow\" }\n\n"
            "[workspace]\n" % (name, ver, ed, "\n".join(deps)))


def build_crate(workdir, kspecs):
    """kspecs: list of (unit_id, kani-spec).  Returns info dict."""
    crate = os.path.join(workdir, "crate")
    if os.path.exists(crate):
        shutil.rmtree(crate)
    os.makedirs(crate)
    shutil.copytree(os.path.join(REPO, "src"), os.path.join(crate, "src"))
    for f in ("Cargo.lock", "README.md"):
        shutil.copy(os.path.join(REPO, f), os.path.join(crate, f))
    with open(os.path.join(crate, "Cargo.toml"), "w") as f:
        f.write(_manifest())
    os.makedirs(os.path.join(crate, ".cargo"))
    with open(os.path.join(crate, ".cargo", "config.toml"), "w") as f:
        f.write("[net]\noffline = true\n")
    per_file = {}  # relpath -> list of (offset, text)
    fn_infos = []
    seen_mods = set()
    for uid, ks in kspecs:
        for at in ks.get("attrs", []):
            key = (at["file"], at["fn"], at.get("within"), tuple(at["lines"]))
            if key in seen_mods:
                continue
            seen_mods.add(key)
            sf = sources.src(at["file"])
            loc = sf.find_fn(at["fn"], at.get("within"), at.get("nth", 0))
            indent = re.match(r"[ \t]*", sf.text[loc["sig_start"]:]).group(0)
            txt = "".join("%s%s\n" % (indent, l) for l in at["lines"])
            per_file.setdefault(at["file"], []).append((loc["sig_start"], txt))
            fn_infos.append(dict(unit=uid, file=at["file"], fn=at["fn"], line=loc["line"], end_line=loc["end_line"],
                                 overlay="function contract attributes", sha256=sources.sha256_file(at["file"])))
        for md in ks.get("modules", []):
            if (md["file"], md["name"]) in seen_mods:
                continue
            seen_mods.add((md["file"], md["name"]))
            sf = sources.src(md["file"])
            code = md["code"]
            for sl in md.get("slices", []):
                code = make_slice(sl) + "\n" + code
            for lf in md.get("lift", []):
                lsf = sources.src(lf["file"])
                ltxt, lloc = lsf.fn_text(lf["fn"], lf.get("within"), lf.get("nth", 0))
                code = ("    // lifted verbatim from %s:%d\n" % (lf["file"], lloc["line"])) + ltxt + "\n" + code
            txt = "\n#[cfg(kani)]\n#[allow(unused, non_snake_case, clippy::all)]\n%smod %s {\n    use super::*;\n%s\n}\n" % (md.get("vis", ""), md["name"], code)
            per_file.setdefault(md["file"], []).append((len(sf.text), txt))
        for fn in ks.get("functions", []):
            sf = sources.src(fn["file"])
            loc = sf.find_fn(fn["fn"], fn.get("within"), fn.get("nth", 0))
            fn_infos.append(dict(unit=uid, file=fn["file"], fn=fn["fn"], within=fn.get("within"), line=loc["line"],
                                 end_line=loc["end_line"], overlay="harness in child module",
                                 sha256=sources.sha256_file(fn["file"])))
    for rel, ins in per_file.items():
        sf = sources.src(rel)
        ins.sort(key=lambda x: x[0])
        out, pos, marks, wl = [], 0, [], 0
        for off, txt in ins:
            out.append(sf.text[pos:off])
            wl += off - pos
            marks.append((wl, wl + len(txt)))
            out.append(txt)
            wl += len(txt)
            pos = off
        out.append(sf.text[pos:])
        woven = "".join(out)
        erased = woven
        for a, b in reversed(marks):
            erased = erased[:a] + erased[b:]
        if erased != sf.text:
            raise WeaveError("erasure check failed for %s" % rel)
        with open(os.path.join(crate, rel), "w") as f:
            f.write(woven)
    return dict(crate=crate, functions=fn_infos, woven_files=sorted(per_file))


def make_slice(sl):
    """Lift verbatim statements (and optionally a closure body) of a repository
    function into a stand-alone fn, see DESIGN.md 2.3.
      sl = {name, file, fn, within?, nth?, stmts_from, stmts_to, closure?: anchor of `|args| body` call,
            params, ret, pre?, post?}
    Copied verbatim: the statements in [stmts_from, stmts_to) and the closure body.
    Dropped: the iterator driver around the closure."""
    sf = sources.src(sl["file"])
    loc = sf.find_fn(sl["fn"], sl.get("within"), sl.get("nth", 0))
    lo, hi = loc["body_open"], loc["body_close"]
    body_m = sf.masked[lo:hi]

    def one(anchor):
        pat = anchor[3:] if anchor.startswith("re:") else re.escape(anchor)
        idx = [m.start() for m in re.finditer(pat, body_m)]
        if len(idx) != 1:
            raise sources.AnchorLost("slice %s: anchor %r matched %d times in %s" % (sl["name"], anchor, len(idx), sl["fn"]))
        return lo + idx[0]

    parts = []
    if sl.get("stmts_from"):
        a = one(sl["stmts_from"])
        a = sf.text.rfind("\n", 0, a) + 1
        if sl.get("stmts_upto"):
            b = sf.text.find("\n", one(sl["stmts_upto"])) + 1
        else:
            b = one(sl["stmts_to"])
            b = sf.text.rfind("\n", 0, b) + 1
        parts.append(sf.text[a:b])
    for fr, to in sl.get("more_stmts", []):
        a = one(fr)
        a = sf.text.rfind("\n", 0, a) + 1
        b = one(to)
        b = sf.text.find("\n", b) + 1 if sl.get("more_inclusive", True) else sf.text.rfind("\n", 0, b) + 1
        parts.append(sf.text[a:b])
    tail = sl.get("post", "")
    if sl.get("expr_of_assign"):
        # right-hand side of the assignment statement starting at the anchor, up to its ';'
        a = one(sl["expr_of_assign"])
        j, depth = a + len(sl["expr_of_assign"]), 0
        while True:
            ch = sf.masked[j]
            if ch in "([{":
                depth += 1
            elif ch in ")]}":
                depth -= 1
            elif ch == ";" and depth == 0:
                break
            j += 1
        parts.append("        " + sf.text[a + len(sl["expr_of_assign"]):j].strip() + "\n")
    if sl.get("closure"):
        c = one(sl["closure"])
        # the call's opening parenthesis is the first '(' of the anchor
        op = sf.masked.index("(", c)
        depth, j = 0, op
        while True:
            ch = sf.masked[j]
            if ch in "([{":
                depth += 1
            elif ch in ")]}":
                depth -= 1
                if depth == 0:
                    break
            j += 1
        inner = sf.text[op + 1:j]
        m = re.match(r"\s*(?:move\s+)?\|[^|]*\|\s*", inner)
        if not m:
            raise sources.AnchorLost("slice %s: no closure at anchor" % sl["name"])
        parts.append("        " + inner[m.end():].strip() + "\n")
    body = "".join(parts)
    return ("    // slice lifted verbatim from %s fn %s (line %d); driver around the closure dropped\n"
            "    pub(crate) fn %s(%s) -> %s {\n%s%s%s    }\n" % (sl["file"], sl["fn"], loc["line"], sl["name"], sl["params"], sl["ret"],
                                                             ("        " + sl["pre"].strip() + "\n") if sl.get("pre") else "", body,
                                                             ("        " + tail.strip() + "\n") if tail else ""))


class _Watchdog(threading.Thread):
    """Kill cbmc processes below `root_pid` whose RSS exceeds the limit."""

    def __init__(self, root_pid):
        super().__init__(daemon=True)
        self.root = root_pid
        self.stop = False
        self.killed = []
        self.peak_kb = 0
        self.peak_driver_kb = 0

    def _children(self):
        kids = {}
        for p in os.listdir("/proc"):
            if not p.isdigit():
                continue
            try:
                with open("/proc/%s/stat" % p) as f:
                    st = f.read()
                rp = st.rfind(")")
                fields = st[rp + 2:].split()
                ppid = int(fields[1])
                comm = st[st.find("(") + 1:rp]
                rss = int(fields[21]) * 4
                kids[int(p)] = (ppid, comm, rss)
            except Exception:
                pass
        desc, frontier = set(), {self.root}
        while frontier:
            nxt = {p for p, (pp, _, _) in kids.items() if pp in frontier and p not in desc}
            desc |= nxt
            frontier = nxt
        return [(p,) + kids[p] for p in desc]

    @staticmethod
    def _mem_available_kb():
        try:
            for l in open("/proc/meminfo"):
                if l.startswith("MemAvailable:"):
                    return int(l.split()[1])
        except Exception:
            pass
        return 1 << 40

    def run(self):
        while not self.stop:
            kids = self._children()
            # kani-driver keeps every CBMC message of a harness in memory (several GB for harnesses with long unwindings); when
            # the machine runs out of memory the kernel kills the driver and ALL results are lost.  Sacrifice the largest cbmc
            # (that harness becomes inconclusive) before that happens.
            if self._mem_available_kb() < 3 * 1024 * 1024:
                cb = sorted([(rss, pid) for pid, _, comm, rss in kids if comm.startswith("cbmc")], reverse=True)
                if cb:
                    try:
                        os.kill(cb[0][1], signal.SIGKILL)
                        self.killed.append((cb[0][1], cb[0][0]))
                    except Exception:
                        pass
                    time.sleep(5)
            for pid, _, comm, rss in kids:
                if comm.startswith("kani-driver"):
                    self.peak_driver_kb = max(self.peak_driver_kb, rss)
                if comm.startswith("cbmc") or comm.startswith("goto-"):
                    self.peak_kb = max(self.peak_kb, rss)
                    if rss > RSS_LIMIT_KB:
                        try:
                            os.kill(pid, signal.SIGKILL)
                            self.killed.append((pid, rss))
                        except Exception:
                            pass
            time.sleep(2)


def run_harnesses(crate, harness_names, jobs=8, harness_timeout=600, total_timeout=3000, extra_flags=(), heavy=(), batch=None, huge=(), mid=()):
    """Run the harnesses in batches (one `cargo kani` invocation each) and merge the exported results.

    kani-driver holds the CBMC output of every harness of an invocation in memory; harnesses listed in `heavy` (long unwindings: several
    GB of driver memory each) run in their own batches of 3 with at most 3 jobs, `mid` (1 - 3 GB each) in batches of 8 with at most 4 jobs,
    `huge` (> 20 GB) alone, the others in batches of FV_BATCH (default 40)."""
    huge = [h for h in harness_names if h in set(huge)]
    mid = [h for h in harness_names if h in set(mid) and h not in huge]
    heavy = [h for h in harness_names if h in set(heavy) and h not in huge and h not in mid]
    light = [h for h in harness_names if h not in set(heavy) and h not in huge and h not in mid]
    bs = batch or int(os.environ.get("FV_BATCH", "40"))
    batches = [(light[i:i + bs], jobs) for i in range(0, len(light), bs)] + [(heavy[i:i + 3], min(jobs, 3)) for i in range(0, len(heavy), 3)] + [(mid[i:i + 8], min(jobs, 4)) for i in range(0, len(mid), 8)] + [([h], 1) for h in huge]
    t0 = time.time()
    merged = None
    res = dict(cmd="", out="", json=None, wall_s=0.0, timed_out=False, rc=0, killed=[], peak_rss_kb=0, peak_driver_kb=0, batches=len(batches))
    for names, j in batches:
        left = total_timeout - (time.time() - t0)
        if left <= 0:
            res["timed_out"] = True
            break
        r = _run_batch(crate, names, j, harness_timeout, left, extra_flags)
        res["cmd"] = res["cmd"] or r["cmd"]
        res["out"] += r["out"]
        res["wall_s"] += r["wall_s"]
        res["timed_out"] = res["timed_out"] or r["timed_out"]
        res["rc"] = max(res["rc"], r["rc"] or 0)
        res["killed"] += r["killed"]
        res["peak_rss_kb"] = max(res["peak_rss_kb"], r["peak_rss_kb"])
        res["peak_driver_kb"] = max(res["peak_driver_kb"], r["peak_driver_kb"])
        js = r["json"]
        if js is None:
            continue
        if merged is None:
            merged = js
        else:
            for k in ("harness_metadata", "property_details", "cbmc"):
                merged.setdefault(k, [])
                merged[k] += js.get(k, [])
            merged.setdefault("verification_results", {}).setdefault("results", [])
            merged["verification_results"]["results"] += js.get("verification_results", {}).get("results", [])
    res["json"] = merged
    return res


def _run_batch(crate, harness_names, jobs, harness_timeout, total_timeout, extra_flags=()):
    out_json = os.path.join(crate, "fv_out.json")
    if os.path.exists(out_json):
        os.remove(out_json)
    cmd = ["cargo", "kani"] + KANI_FLAGS + ["--output-format", "terse", "--harness-timeout", "%ds" % harness_timeout,
                                            "--export-json", out_json, "-j", str(jobs), "--exact"] + list(extra_flags)
    for h in harness_names:
        cmd += ["--harness", h]
    env = dict(os.environ, CARGO_NET_OFFLINE="true", CARGO_TARGET_DIR=os.path.join(crate, "target"))
    t0 = time.time()
    p = subprocess.Popen(cmd, cwd=crate, env=env, stdout=subprocess.PIPE, stderr=subprocess.STDOUT, text=True,
                         start_new_session=True)
    wd = _Watchdog(p.pid)
    wd.start()
    try:
        out, _ = p.communicate(timeout=total_timeout)
        timed_out = False
    except subprocess.TimeoutExpired:
        os.killpg(p.pid, signal.SIGKILL)
        out, _ = p.communicate()
        timed_out = True
    wd.stop = True
    wall = time.time() - t0
    js = None
    if os.path.exists(out_json):
        try:
            js = json.load(open(out_json))
        except Exception:
            js = None
    return dict(cmd=" ".join(cmd), out=out, json=js, wall_s=wall, timed_out=timed_out, rc=p.returncode,
                killed=wd.killed, peak_rss_kb=wd.peak_kb, peak_driver_kb=wd.peak_driver_kb)


_INCONCLUSIVE_DESC = re.compile(r"unwinding assertion|unsupported|not currently supported|is not supported|recursion unwinding", re.I)


def classify(run, wanted):
    """Per harness: status in {success, failed, inconclusive}, checks totals,
    failed checks (description, function, file, line)."""
    res = {}
    js = run["json"]
    full = {}
    if js:
        for hm in js.get("harness_metadata", []):
            short = hm["pretty_name"].split("::")[-1]
            full[hm["pretty_name"]] = short
    by_id = {}
    if js:
        for r in js.get("verification_results", {}).get("results", []):
            by_id[r["harness_id"]] = r
        pd = {d["harness_id"]: d["property_details"] for d in js.get("property_details", [])}
        cb = {d["harness_id"]: d for d in js.get("cbmc", [])}
    for hid, r in by_id.items():
        short = hid.split("::")[-1]
        checks = r.get("checks", [])
        # CBMC's float "NaN on ..." / float-overflow checks flag the PRODUCTION of a NaN / inf (0 * inf, inf / inf), which is defined
        # behaviour in Rust and not a panic: they are not obligations of any property here and are ignored (counted in `ignored_nan`)
        nanc = [c for c in checks if c.get("status") == "Failure" and (c.get("category") == "NaN" or re.match(r"NaN on |arithmetic overflow on floating-point", c.get("description", "")))]
        failed = [c for c in checks if c.get("status") == "Failure" and c not in nanc]
        undet = [c for c in checks if c.get("status") in ("Undetermined", "Unknown")]
        covers_sat = sum(1 for c in checks if c.get("status") == "Satisfied")
        covers_unsat = [c for c in checks if c.get("status") in ("Unsatisfiable", "Unreachable") and c.get("category") == "cover"]
        status = "success" if (r.get("status") == "Success" or (nanc and not failed)) else "failed"
        incon = [c for c in failed if _INCONCLUSIVE_DESC.search(c.get("description", "")) or c.get("category") in ("unwind", "unsupported_construct")]
        real = [c for c in failed if c not in incon]
        if status == "failed" and not real:
            status = "inconclusive"
        stats = (cb.get(hid) or {}).get("cbmc_stats") or {}
        res[short] = dict(id=hid, status=status, total=len(checks),
                          passed=sum(1 for c in checks if c.get("status") == "Success"),
                          failed=[dict(description=c.get("description"), function=c.get("function"),
                                       file=c.get("location", {}).get("file"), line=c.get("location", {}).get("line"),
                                       category=c.get("category")) for c in real],
                          inconclusive=[c.get("description") for c in incon] + ([] if incon else [c.get("description") for c in undet][:5]),
                          covers_satisfied=covers_sat, covers_unsat=len(covers_unsat),
                          duration_ms=r.get("duration_ms"), solver_s=stats.get("runtime_solver_s"),
                          symex_s=stats.get("runtime_symex_s"), vccs=stats.get("vccs_generated"), steps=stats.get("size_program_expression"))
        if status == "failed" and incon:
            res[short]["note"] = "also inconclusive checks: %s" % [c.get("description") for c in incon][:3]
    for h in wanted:
        if h not in res:
            # timeout, crash, compile error or killed by the watchdog
            why = "no result (timeout / crash / compile error)"
            m = re.search(r"(?:Checking harness [\w:]*::%s\b.*?)(TIMEOUT|timed out|CBMC failed|out of memory|Killed)" % re.escape(h), run["out"], re.S)
            if m:
                why = m.group(1)
            res[h] = dict(id=h, status="inconclusive", total=0, passed=0, failed=[], inconclusive=[why],
                          covers_satisfied=0, covers_unsat=0, duration_ms=None, solver_s=None, symex_s=None, vccs=None)
    return res


def playback(crate, harness, timeout=900):
    """Generate concrete-playback unit tests for a failing harness.  Returns
    dict(tests=[(check_kind, description, src)], output)."""
    env = dict(os.environ, CARGO_NET_OFFLINE="true", CARGO_TARGET_DIR=os.path.join(crate, "target"))
    cmd = ["cargo", "kani"] + KANI_FLAGS + ["-Z", "concrete-playback", "--concrete-playback=print",
                                            "--exact", "--harness", harness, "--output-format", "terse"]
    # run under the RSS watchdog: trace generation (cbmc --trace) has been seen at 26 GB for a harness that verifies in 2 GB
    p = subprocess.Popen(cmd, cwd=crate, env=env, stdout=subprocess.PIPE, stderr=subprocess.STDOUT, text=True, start_new_session=True)
    wd = _Watchdog(p.pid)
    wd.start()
    try:
        out, _ = p.communicate(timeout=timeout)
    except subprocess.TimeoutExpired:
        os.killpg(p.pid, signal.SIGKILL)
        p.communicate()
        wd.stop = True
        return dict(tests=[], output="playback generation timed out")
    wd.stop = True
    if wd.killed:
        return dict(tests=[], output="playback generation stopped: cbmc exceeded the memory limit while building the trace")
    tests = []
    for m in re.finditer(r"```\s*\n(/// Test generated for harness.*?)```", out, re.S):
        src = m.group(1)
        k = re.search(r"Check for `([^`]*)`: \"(.*?)\"\s*$", src, re.M)
        tests.append((k.group(1) if k else "?", k.group(2) if k else "?", src))
    # failing assertions first, reachability covers never
    tests = [t for t in tests if t[0] != "cover"]
    return dict(tests=tests, output=out[-3000:] if not tests else "")


def run_playback_test(crate, rel_file, module, test_src, timeout=900):
    """Insert a generated playback test next to its harness (into a pristine
    copy of the woven file) and execute it natively with `cargo kani playback`."""
    path = os.path.join(crate, rel_file)
    orig = path + ".fv_orig"
    if not os.path.exists(orig):
        shutil.copy(path, orig)
    text = open(orig).read()
    marker = "mod %s {\n    use super::*;\n" % module
    k = text.find(marker)
    if k < 0:
        return dict(ran=False, panicked=False, output="harness module %s not found" % module)
    text = text[:k + len(marker)] + test_src + "\n" + text[k + len(marker):]
    with open(path, "w") as f:
        f.write(text)
    name = re.search(r"fn (kani_concrete_playback_\w+)", test_src).group(1)
    env = dict(os.environ, CARGO_NET_OFFLINE="true", CARGO_TARGET_DIR=os.path.join(crate, "target"))
    cmd = ["cargo", "kani", "playback", "-Z", "concrete-playback", "--lib", "--", name]
    try:
        p = subprocess.run(cmd, cwd=crate, env=env, capture_output=True, text=True, timeout=timeout)
    except subprocess.TimeoutExpired:
        return dict(ran=False, panicked=False, output="playback timed out")
    finally:
        shutil.copy(orig, path)
    out = p.stdout + p.stderr
    k = out.find("running 1 test")
    ran = k >= 0
    tail = out[k:] if ran else out[-3000:]
    panicked = ran and bool(re.search(r"test .*%s \.\.\. FAILED|panicked at" % name, tail))
    return dict(ran=ran, panicked=panicked, output=tail[:2500])
