"""./check driver: decide one property by discharging the obligations generated
from /repo's current working tree."""
import concurrent.futures as cf
import hashlib
import json
import os
import re
import shutil
import subprocess
import sys
import tempfile
import time

from . import findings, kani, registry, sources, verus

ROOT = registry.ROOT
EVID = os.environ.get("FV_EVID_DIR") or os.path.join(ROOT, "evidence")
REPLAYS = os.path.join(ROOT, "replays")

TRUSTED_BASE = [
    "Verus 0.2026.09.13 + Z3 (E1) and Kani 0.68 / CBMC 6.11 / CaDiCaL (E2/E3): soundness of the verifiers",
    "rustc MIR of Kani's nightly toolchain vs the repository's stable toolchain: same source text, different compiler",
    "the weaver /verif/fv (erasure-checked on every run: stripping the overlay gives back /repo's text byte for byte)",
    "std: Vec, slice iterators, chunks_exact, align_to(_mut), split_at(_mut), f64::{floor,ceil,round} as modelled by CBMC",
    "usize is 64 bit",
    "CBMC's float 'NaN on ...' checks (production of a NaN, e.g. 0 * inf) are ignored: defined behaviour in Rust, not a panic",
]


def log(*a):
    print(*a, flush=True)


def _tier_ok(h, tier):
    if h.get("tier") == "dev":       # development-only attempts (known not to terminate): run by neither tier
        return False
    return tier == "thorough" or h.get("tier", "quick") == "quick"


def _wanted(h, pid):
    return not h.get("props") or pid in h["props"]


def _verus_units(units, pid):
    return [u for u in units if u.get("verus") and (not u["verus"].get("props") or pid in u["verus"]["props"])]


def decide(pid, tier, seed, keep=False, only_obligation=None):
    t0 = time.time()
    PROPS = registry.props()
    UNITS = registry.units()
    if pid not in PROPS:
        log("unknown or unclaimed property %s" % pid)
        return 2
    P = PROPS[pid]
    units = [UNITS[u] for u in P["units"]]
    workdir = tempfile.mkdtemp(prefix="fir-verif.")
    obligations = []  # records
    functions = []
    notes = []
    backends = {"verus": dict(functions_verified=0, smt_ms=0, wall_s=0.0, files=0),
                "kani": dict(harnesses=0, cbmc_checks=0, solver_s=0.0, wall_s=0.0, peak_rss_mb=0, cmd="")}
    assumptions_scan = []
    try:
        # ------------------------------------------------------------- E1
        vunits = _verus_units(units, pid)
        if only_obligation:
            vunits = [u for u in vunits if only_obligation.startswith(u["id"] + "::")]
        with cf.ThreadPoolExecutor(max_workers=6) as ex:
            futs = {ex.submit(verus.check_unit, u["id"], u["verus"], workdir, u["verus"].get("timeout", 300)): u for u in vunits}
            for fu in cf.as_completed(futs):
                u = futs[fu]
                r = fu.result()
                backends["verus"]["files"] += 1
                backends["verus"]["smt_ms"] += r.get("smt_ms", 0)
                backends["verus"]["wall_s"] += r.get("wall_s", 0)
                backends["verus"]["functions_verified"] += r.get("verified_fns", 0)
                functions += [dict(f, unit=u["id"], engine="verus") for f in r["functions"]]
                if r["status"] == "inconclusive":
                    for n in r["notes"]:
                        notes.append("%s: %s" % (u["id"], n))
                    obligations.append(dict(name=u["id"] + "::*", unit=u["id"], engine="verus", kind="complete",
                                            status="inconclusive", claim=u.get("title", ""), detail=r["notes"]))
                    continue
                for o in r["obligations"]:
                    obligations.append(dict(name=o["name"], unit=u["id"], engine="verus", kind="complete",
                                            status=o["status"], claim="; ".join(o["clauses"]), detail=o["detail"],
                                            twin=(u["verus"].get("twins") or {}).get(o["fn"]),
                                            verifier_output=r["raw_stderr"][-6000:] if o["status"] == "failed" else ""))
                if "canaries" in r:
                    notes.append("%s: vacuity canaries %d/%d failed as required" % (u["id"], r["canaries"]["failed_as_expected"], r["canaries"]["total"]))
                for st in ("assume(", "admit(", "external_body", "assume_specification"):
                    txt = json.dumps(u["verus"])
                    if st in txt:
                        assumptions_scan.append("%s (verus overlay) uses %s" % (u["id"], st))
        # ------------------------------------------------------------- E2/E3
        kunits = [u for u in units if u.get("kani")]
        hs = []
        for u in kunits:
            for h in u["kani"].get("harnesses", []):
                if _tier_ok(h, tier) and _wanted(h, pid) and not (tier == "quick" and any(re.search(x, h["name"]) for x in P.get("quick_skip", []))):
                    if only_obligation and only_obligation != "%s::%s" % (u["id"], h["name"]):
                        continue
                    hs.append((u, h))
        crate_info = None
        if hs or any(o.get("twin") and o["status"] == "failed" for o in obligations):
            try:
                crate_info = kani.build_crate(workdir, [(u["id"], u["kani"]) for u in kunits])
            except (sources.AnchorLost, kani.WeaveError) as e:
                notes.append("kani weave: %s" % e)
                for u, h in hs:
                    obligations.append(dict(name="%s::%s" % (u["id"], h["name"]), unit=u["id"], engine="kani",
                                            kind=h.get("kind", "complete"), status="inconclusive", claim=h.get("claim", ""),
                                            detail=["anchor lost: %s" % e]))
                hs = []
        if hs:
            functions += [dict(f, engine="kani") for f in crate_info["functions"]]
            for u in kunits:
                txt = json.dumps(u["kani"])
                for st in ("kani::assume(", "kani::stub(", "stub_verified("):
                    n = txt.count(st)
                    if n:
                        assumptions_scan.append("%s (kani overlay) uses %s x%d" % (u["id"], st, n))
            names = [h["full"] for _, h in hs]
            htime = max(h.get("timeout", 300) for _, h in hs)
            jobs = int(os.environ.get("FV_JOBS", "12"))
            run = kani.run_harnesses(crate_info["crate"], names, jobs=jobs, harness_timeout=htime, heavy=[h["full"] for _, h in hs if h.get("mem") == "high" and tier == "thorough"], huge=[h["full"] for _, h in hs if h.get("mem") == "huge"], mid=[h["full"] for _, h in hs if h.get("mem") == "mid" and tier == "thorough"],   # the quick subsets are small enough (measured)
                                     total_timeout=P.get("total_timeout", 5400) if tier == "quick" else 12 * 3600,
                                     batch=60 if tier == "quick" else None)      # quick: at most two invocations (kani-driver memory 20 - 30 GB per 100 harnesses, measured)
            backends["kani"]["wall_s"] += run["wall_s"]
            backends["kani"]["cmd"] = run["cmd"]
            backends["kani"]["peak_rss_mb"] = run["peak_rss_kb"] // 1024
            backends["kani"]["peak_driver_rss_mb"] = run.get("peak_driver_kb", 0) // 1024
            backends["kani"]["batches"] = run.get("batches", 1)
            if run["killed"]:
                notes.append("watchdog killed cbmc (RSS limit): %s" % run["killed"])
            if run["json"] is None:
                tail = run["out"][-3000:]
                notes.append("cargo kani produced no result file (compile error?): " + tail)
            cls = kani.classify(run, [h["name"] for _, h in hs])
            for u, h in hs:
                c = cls[h["name"]]
                backends["kani"]["harnesses"] += 1
                backends["kani"]["cbmc_checks"] += c["total"]
                backends["kani"]["solver_s"] += c["solver_s"] or 0
                st = {"success": "discharged", "failed": "failed", "inconclusive": "inconclusive"}[c["status"]]
                det = c["failed"] if st == "failed" else c["inconclusive"]
                want_cov = h.get("covers", 0)
                if st == "discharged" and (c["covers_satisfied"] < want_cov or c["covers_unsat"] > 0):
                    st = "inconclusive"
                    det = ["vacuity: %d of %d reachability covers satisfied" % (c["covers_satisfied"], want_cov)]
                if st == "discharged" and c["total"] == 0:
                    st = "inconclusive"
                    det = ["harness generated zero checks"]
                obligations.append(dict(name="%s::%s" % (u["id"], h["name"]), unit=u["id"], engine="kani",
                                        kind=h.get("kind", "complete"), bound=h.get("bound"), status=st,
                                        claim=h.get("claim", ""), detail=det, checks=c["total"], passed=c["passed"],
                                        solver_s=c["solver_s"], duration_ms=c["duration_ms"], harness=h["name"], steps=c.get("steps"), vccs=c.get("vccs"),
                                        module=h.get("module"), file=h.get("file"), covers=c["covers_satisfied"]))
        # --------------------------------------------------- mechanical units
        for u in units:
            if u.get("mechanical") and not only_obligation:
                for o in u["mechanical"]():
                    obligations.append(dict(o, unit=u["id"], engine="mechanical", kind="complete"))
        # ------------------------------------------------------------ verdict
        viol_lines, known_lines, incon = [], [], []
        by_harness = {o.get("harness"): o for o in obligations if o["engine"] == "kani"}
        for o in obligations:
            # A Verus obligation that stopped verifying while its complete Kani twin discharges the same
            # postcondition for all inputs is a proof that became too hard, not a violation.
            tw = by_harness.get(o.get("twin")) if o.get("twin") else None
            if o["status"] == "failed" and o["engine"] == "verus" and tw and tw["status"] == "discharged" and tw["kind"] == "complete":
                o["status"] = "inconclusive"
                o["detail"] = ["Verus could not discharge the obligation but its complete Kani twin %s proves the same "
                               "postcondition for all inputs: proof brittleness, not a violation" % tw["name"]] + [json.dumps(o["detail"])[:800]]
        for o in obligations:
            if o["status"] == "inconclusive" or o["status"] == "undecided":
                incon.append(o)
            if o["status"] != "failed":
                continue
            dets = o["detail"] or [dict(description="(no detail)")]
            unlisted = []
            for d in dets:
                f = findings.lookup(pid, o["name"], d)
                if f:
                    known_lines.append("KNOWN-FINDING: property=%s %s" % (pid, f["what"]))
                    o.setdefault("known", []).append(f["what"])
                else:
                    unlisted.append(d)
            if not unlisted:
                o["status"] = "known-finding"
                continue
            o["unlisted"] = unlisted
            rp = make_replay(pid, o, unlisted, crate_info, workdir, UNITS)
            suffix = "" if rp["has_input"] else " no-failing-input-found"
            viol_lines.append("VIOLATION property=%s replay=%s%s" % (pid, rp["path"], suffix))
        for l in sorted(set(known_lines)):
            log(l)
        for o in incon:
            log("INCONCLUSIVE property=%s obligation=%s reason=%s" % (pid, o["name"], json.dumps(o["detail"])[:600]))
        for l in viol_lines:
            log(l)
        wall = time.time() - t0
        write_evidence(pid, P, tier, seed, obligations, functions, backends, notes, assumptions_scan, wall,
                       len(viol_lines), units)
        n_c = sum(1 for o in obligations if o["kind"] == "complete")
        n_cd = sum(1 for o in obligations if o["kind"] == "complete" and o["status"] == "discharged")
        n_b = sum(1 for o in obligations if o["kind"] == "bounded")
        n_bd = sum(1 for o in obligations if o["kind"] == "bounded" and o["status"] == "discharged")
        log("%s tier=%s: complete obligations %d/%d discharged, bounded checks %d/%d passed, %d known findings, "
            "%d violations, %d inconclusive, %.0fs" % (pid, tier, n_cd, n_c, n_bd, n_b, len(set(known_lines)),
                                                       len(viol_lines), len(incon), wall))
        if viol_lines:
            return 1
        if incon:
            return 2
        return 0
    finally:
        if keep or os.environ.get("FV_KEEP"):
            log("scratch kept at %s" % workdir)
        else:
            shutil.rmtree(workdir, ignore_errors=True)


def make_replay(pid, o, unlisted, crate_info, workdir, UNITS):
    os.makedirs(REPLAYS, exist_ok=True)
    h = hashlib.sha256(json.dumps([o["name"], unlisted], sort_keys=True, default=str).encode()).hexdigest()[:10]
    path = os.path.join(REPLAYS, "%s-%s-%s" % (pid, re.sub(r"[^A-Za-z0-9_]+", "_", o["name"]), h))
    os.makedirs(path, exist_ok=True)
    rec = dict(property=pid, obligation=o["name"], unit=o["unit"], engine=o["engine"], claim=o.get("claim"),
               failed_checks=unlisted, verifier_output=o.get("verifier_output", ""),
               repo_head=_git_head(), has_input=False)
    has_input = False
    harness = None
    if o["engine"] == "kani":
        harness = o["harness"]
    elif o.get("twin"):
        harness = o["twin"]
        rec["twin_harness"] = harness
    if harness and crate_info:
        u, hh = _find_harness(UNITS, harness)
        pb = kani.playback(crate_info["crate"], hh["full"] if hh else harness)
        rec["playback_harness"] = harness
        if pb["tests"] and hh:
            rec["playback_file"] = hh["file"]
            rec["playback_module"] = hh["module"]
            rec["playback"] = []
            for i, (kind, desc, src) in enumerate(pb["tests"][:4]):
                rr = kani.run_playback_test(crate_info["crate"], hh["file"], hh["module"], src)
                rec["playback"].append(dict(check=desc, kind=kind, ran=rr["ran"], panicked=rr["panicked"], output=rr["output"]))
                if rr["ran"] and rr["panicked"]:
                    with open(os.path.join(path, "playback_test.rs"), "w") as f:
                        f.write(src)
                    has_input = True
                    rec["decoded_inputs"] = [a.strip() for a in re.findall(r"^\s*//\s*(.+)$", src, re.M)][:64]
                    rec["failing_check"] = desc
                    break
        else:
            rec["playback"] = dict(ran=False, output=pb.get("output", ""))
    rec["has_input"] = has_input
    with open(os.path.join(path, "replay.json"), "w") as f:
        json.dump(rec, f, indent=1, default=str)
    return dict(path=path, has_input=has_input)


def _find_harness(UNITS, name):
    for u in UNITS.values():
        for h in (u.get("kani") or {}).get("harnesses", []):
            if h["name"] == name:
                return u, h
    return None, None


def _git_head():
    try:
        return subprocess.run(["git", "-C", sources.REPO, "rev-parse", "HEAD"], capture_output=True, text=True).stdout.strip()
    except Exception:
        return ""


def replay(pid, path):
    """Re-run the failed obligation of a replay directory against the current
    tree; natively execute its concrete-playback test when one was recorded.
    Exit 1 if the violation reproduces, 0 if it does not."""
    rec = json.load(open(os.path.join(path, "replay.json")))
    UNITS = registry.units()
    log("replaying %s obligation %s" % (rec["property"], rec["obligation"]))
    reproduced = False
    if rec.get("playback_harness") and os.path.exists(os.path.join(path, "playback_test.rs")):
        workdir = tempfile.mkdtemp(prefix="fir-verif.")
        try:
            PROPS = registry.props()
            units = [UNITS[u] for u in PROPS[pid]["units"] if UNITS[u].get("kani")]
            info = kani.build_crate(workdir, [(u["id"], u["kani"]) for u in units])
            rr = kani.run_playback_test(info["crate"], rec["playback_file"], rec["playback_module"],
                                        open(os.path.join(path, "playback_test.rs")).read())
            log(rr["output"][-2500:])
            if rr["ran"] and rr["panicked"]:
                log("native playback on the real code PANICKED: violation reproduced")
                reproduced = True
            elif rr["ran"]:
                log("native playback passed on the current tree")
        finally:
            shutil.rmtree(workdir, ignore_errors=True)
    if not reproduced:
        rc = decide(pid, "quick", 0, only_obligation=rec["obligation"])
        reproduced = rc == 1
    return 1 if reproduced else 0


def write_evidence(pid, P, tier, seed, obligations, functions, backends, notes, scan, wall, nviol, units):
    os.makedirs(EVID, exist_ok=True)
    comp_all = [o for o in obligations if o["kind"] == "complete"]
    # an obligation whose every failing check is a listed known finding is reported under known_finding_obligations and is not
    # part of the obligations / discharged counts (a proof-level record needs discharged == obligations)
    comp = [o for o in comp_all if o["status"] != "known-finding"]
    known_obl = [o for o in obligations if o["status"] == "known-finding"]
    bnd = [o for o in obligations if o["kind"] == "bounded"]
    discharged = [o for o in comp if o["status"] == "discharged"]

    def brief(o):
        d = dict(obligation=o["name"], engine=o["engine"], status=o["status"], claim=o.get("claim", ""))
        for k in ("checks", "solver_s", "duration_ms", "bound", "known"):
            if o.get(k) is not None:
                d[k] = o[k]
        if o["status"] not in ("discharged",):
            d["detail"] = o.get("detail")
        return d

    assumptions = list(TRUSTED_BASE)
    for u in units:
        assumptions += ["%s: %s" % (u["id"], a) for a in u.get("assumptions", [])]
    assumptions += P.get("assumptions", [])
    if any(u["id"] in ("A7", "A8") for u in units):
        stf = os.path.join(ROOT, ".cache", "simd_selftest.json")
        if os.path.exists(stf):
            st = json.load(open(stf))
            assumptions.append("E4 instruction models cross-checked on this host at setup: rc=%s %s" % (st.get("rc"), st.get("summary")))
        else:
            assumptions.append("E4 instruction models NOT cross-checked in this sandbox copy (./check --setup not run): models unvalidated")
    assumptions += ["scan: " + s for s in sorted(set(scan))]
    level = P["level"]
    cov = dict(
        obligations=len(comp), discharged=len(discharged),
        checker_cmd="verus <woven>.rs --output-json --time ; " + (backends["kani"]["cmd"] or "cargo kani (no harness this run)"),
        trusted_base=TRUSTED_BASE,
        evaluations=len(obligations),
        distinct_nontrivial=len({o["name"] for o in obligations if o["status"] == "discharged" and (o.get("checks", 1) or 0) > 0}),
        rule="one evaluation = one named obligation generated from /repo's working tree (a Verus function contract, or a Kani "
             "harness with all its CBMC checks); non-trivial = discharged with at least one generated check and, where the "
             "harness declares them, all reachability covers satisfied",
        samples=[brief(o) for o in (comp[:4] + bnd[:3])] or [dict(note="no obligation ran")],
        functions_under_contract=functions,
        complete_obligations=[brief(o) for o in comp],
        known_finding_obligations=[brief(o) for o in known_obl],
        bounded_checks=[brief(o) for o in bnd],
        bounded_passed=sum(1 for o in bnd if o["status"] == "discharged"),
        backends=backends,
        not_decided=P.get("not_decided", []),
        notes=notes,
        exhaustive=False,
    )
    if level == "model_checking":
        # bounded model checking with CBMC: states = symbolic program steps explored (SSA steps, summed over the harnesses that ran),
        # transitions = verification conditions generated from them; traces = counterexample traces replayed natively on the real code
        cov["states"] = max(1, int(sum(o.get("steps") or 0 for o in obligations)))
        cov["transitions"] = max(1, int(sum(o.get("vccs") or 0 for o in obligations)))
        cov["traces_validated_against_impl"] = int(backends.get("replayed", 0))
        cov["states_rule"] = "states = sum of CBMC 'size of program expression' (SSA steps) over the Kani harnesses of this run; transitions = sum of VCCs generated"
    ev = dict(property_id=pid, tier=tier, seed=seed, level=level, coverage=cov, assumptions=assumptions,
              wall_s=round(wall, 2), violations=nviol)
    with open(os.path.join(EVID, pid + ".json"), "w") as f:
        json.dump(ev, f, indent=1, default=str)


def setup():
    ok = True
    for cmd in (["verus", "--version"], ["cargo", "kani", "--version"], ["cbmc", "--version"]):
        try:
            p = subprocess.run(cmd, capture_output=True, text=True, timeout=120)
            log("%s -> %s" % (" ".join(cmd), (p.stdout + p.stderr).strip().splitlines()[0] if (p.stdout + p.stderr).strip() else p.returncode))
            ok &= p.returncode == 0
        except Exception as e:
            log("%s failed: %s" % (cmd, e))
            ok = False
    # every unit must load and every anchor must resolve on the current tree
    UNITS = registry.units()
    PROPS = registry.props()
    for pid, P in PROPS.items():
        for u in P["units"]:
            if u not in UNITS:
                log("property %s names unknown unit %s" % (pid, u))
                ok = False
    log("units: %d, properties claimed: %d" % (len(UNITS), len(PROPS)))
    # E4: differential self-test of the instruction models against this host's CPU
    st = os.path.join(ROOT, "tools", "simd_model_selftest.sh")
    if os.path.exists(st):
        try:
            p = subprocess.run(["sh", st, "200000"], capture_output=True, text=True, timeout=900)
            last = (p.stdout.strip().splitlines() or [""])[-1]
            log("E4 self-test: rc=%d %s" % (p.returncode, last))
            os.makedirs(os.path.join(ROOT, ".cache"), exist_ok=True)
            with open(os.path.join(ROOT, ".cache", "simd_selftest.json"), "w") as f:
                json.dump(dict(rc=p.returncode, summary=last, at=time.time()), f)
            ok &= p.returncode == 0
        except Exception as e:
            log("E4 self-test failed to run: %s" % e)
            ok = False
    return 0 if ok else 1


def main(argv):
    import argparse
    ap = argparse.ArgumentParser(prog="check")
    ap.add_argument("property", nargs="?")
    ap.add_argument("--tier", default=os.environ.get("VERIF_TIER", "quick"), choices=["quick", "thorough"])
    ap.add_argument("--replay")
    ap.add_argument("--setup", action="store_true")
    ap.add_argument("--keep", action="store_true")
    ap.add_argument("--only")
    ap.add_argument("--dev-verus", help="weave + run one Verus unit, print the verifier output (development aid)")
    ap.add_argument("--dev-kani", help="weave + run the Kani harnesses of one unit (development aid; no evidence written)")
    ap.add_argument("--filter", help="with --dev-kani: only harnesses whose name contains this text")
    ap.add_argument("--timeout", type=int, default=0, help="with --dev-kani: per-harness timeout override (s)")
    ap.add_argument("--thorough-only", action="store_true", help="with --dev-kani --tier thorough: only the harnesses that no quick tier runs")
    a = ap.parse_args(argv)
    if a.setup:
        return setup()
    if a.dev_kani:
        u = registry.units()[a.dev_kani]
        wd = tempfile.mkdtemp(prefix="fir-verif.")
        try:
            info = kani.build_crate(wd, [(u["id"], u["kani"])])
            hs = [h for h in u["kani"]["harnesses"] if (not a.filter or a.filter in h["name"]) and (_tier_ok(h, a.tier) or (a.filter and h.get("tier") == "dev"))]
            if a.thorough_only:
                PR = registry.props()

                def in_some_quick(h):
                    if h.get("tier", "quick") != "quick":
                        return False
                    for pid, P in PR.items():
                        if u["id"] in P["units"] and _wanted(h, pid) and not any(re.search(x, h["name"]) for x in P.get("quick_skip", [])):
                            return True
                    return False
                hs = [h for h in hs if not in_some_quick(h)]
                log("thorough-only harnesses: %d" % len(hs))
                if not hs:
                    return 0
            run = kani.run_harnesses(info["crate"], [h["full"] for h in hs], jobs=int(os.environ.get("FV_JOBS", "12")), heavy=[h["full"] for h in hs if h.get("mem") == "high"], huge=[h["full"] for h in hs if h.get("mem") == "huge"], mid=[h["full"] for h in hs if h.get("mem") == "mid"],
                                     harness_timeout=a.timeout or max(h.get("timeout", 300) for h in hs), total_timeout=8 * 3600)
            if run["json"] is None:
                log(run["out"][-6000:])
            cls = kani.classify(run, [h["name"] for h in hs])
            for h in hs:
                c = cls[h["name"]]
                log("%-44s %-12s checks=%s covers_sat=%s unsat=%s solver=%.1fs wall=%ss" % (h["name"], c["status"], c["total"], c["covers_satisfied"],
                    c["covers_unsat"], c["solver_s"] or 0, (c["duration_ms"] or 0) // 1000))
                for f in c["failed"][:6]:
                    log("      FAILED: %s  [%s %s:%s]" % (f["description"], f["function"], f["file"], f["line"]))
                for f in c["inconclusive"][:4]:
                    log("      inconclusive: %s" % f)
            if run["killed"]:
                log("watchdog killed:", run["killed"])
            log("peak cbmc RSS %d MB, peak kani-driver RSS %d MB, %d batch(es)" % (run["peak_rss_kb"] // 1024, run.get("peak_driver_kb", 0) // 1024, run.get("batches", 1)))
        finally:
            if a.keep:
                log("scratch kept at", wd)
            else:
                shutil.rmtree(wd, ignore_errors=True)
        return 0
    if a.dev_verus:
        u = registry.units()[a.dev_verus]
        wd = tempfile.mkdtemp(prefix="fir-verif.")
        r = verus.check_unit(u["id"], u["verus"], wd, u["verus"].get("timeout", 300))
        log(r["raw_stderr"][-8000:])
        for o in r["obligations"]:
            log(o["name"], o["status"], json.dumps(o["detail"])[:400])
        log("status", r["status"], "notes", r["notes"], "verified_fns", r.get("verified_fns"), "wall %.1fs" % r["wall_s"], r.get("canaries"))
        log("woven file:", r["woven_path"])
        return 0
    if not a.property:
        ap.error("property id required")
    seed = int(os.environ.get("VERIF_SEED", "0") or 0)
    if a.replay:
        return replay(a.property, a.replay)
    return decide(a.property, a.tier, seed, keep=a.keep, only_obligation=a.only)
