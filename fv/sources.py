"""Locate Rust items in /repo's working tree (token-aware brace matching).

Nothing here rewrites repository text: callers get byte offsets into the
original file and splice additive overlays at those offsets.
"""
import hashlib
import os
import re

REPO = os.environ.get("FV_REPO", "/repo")


class AnchorLost(Exception):
    """An item / anchor named by a contract is no longer present in /repo."""


def read(relpath):
    with open(os.path.join(REPO, relpath), "r", encoding="utf-8") as f:
        return f.read()


def sha256_file(relpath):
    with open(os.path.join(REPO, relpath), "rb") as f:
        return hashlib.sha256(f.read()).hexdigest()


def _mask(text):
    """Return a same-length string where comments, string and char literals
    are replaced by spaces (newlines kept) so brace matching and anchor search
    work on code only."""
    out = list(text)
    i, n = 0, len(text)

    def blank(a, b):
        for k in range(a, b):
            if out[k] != "\n":
                out[k] = " "

    while i < n:
        c = text[i]
        if text.startswith("//", i):
            j = text.find("\n", i)
            j = n if j < 0 else j
            blank(i, j)
            i = j
        elif text.startswith("/*", i):
            depth, j = 1, i + 2
            while j < n and depth:
                if text.startswith("/*", j):
                    depth += 1
                    j += 2
                elif text.startswith("*/", j):
                    depth -= 1
                    j += 2
                else:
                    j += 1
            blank(i, j)
            i = j
        elif c == '"' or (c in "rb" and re.match(r'(?:b?r#*"|b")', text[i:i + 8]) and (i == 0 or not (text[i - 1].isalnum() or text[i - 1] == "_"))):
            m = re.match(r'b?r(#*)"', text[i:])
            if m:
                hashes = m.group(1)
                end = text.find('"' + hashes, i + m.end())
                j = n if end < 0 else end + 1 + len(hashes)
            else:
                j = i + (2 if c == "b" else 1)
                while j < n and text[j] != '"':
                    j += 2 if text[j] == "\\" else 1
                j += 1
            blank(i + 1, j - 1)
            i = j
        elif c == "'":
            # char literal or lifetime
            m = re.match(r"'(?:\\(?:x[0-9a-fA-F]{2}|u\{[0-9a-fA-F_]+\}|.)|[^\\'])'", text[i:])
            if m:
                blank(i + 1, i + m.end() - 1)
                i += m.end()
            else:
                i += 1
        else:
            i += 1
    return "".join(out)


def match_brace(masked, open_idx):
    assert masked[open_idx] == "{"
    depth = 0
    for j in range(open_idx, len(masked)):
        ch = masked[j]
        if ch == "{":
            depth += 1
        elif ch == "}":
            depth -= 1
            if depth == 0:
                return j
    raise AnchorLost("unbalanced braces")


class SourceFile:
    def __init__(self, relpath):
        self.relpath = relpath
        self.text = read(relpath)
        self.masked = _mask(self.text)

    def line_of(self, offset):
        return self.text.count("\n", 0, offset) + 1

    def block_after(self, pattern, lo=0, hi=None, nth=0):
        """Find `pattern` (regex on masked code) and the brace block that
        follows it.  Returns (match_start, open_brace, close_brace)."""
        hi = len(self.masked) if hi is None else hi
        ms = list(re.finditer(pattern, self.masked[lo:hi]))
        if len(ms) <= nth:
            raise AnchorLost("%s: pattern %r (occurrence %d) not found" % (self.relpath, pattern, nth))
        m = ms[nth]
        start = lo + m.start()
        ob = self.masked.find("{", lo + m.end() - 1 if self.masked[lo + m.end() - 1] == "{" else lo + m.end())
        # a ';' before '{' means a declaration without body
        semi = self.masked.find(";", lo + m.end())
        if ob < 0 or (0 <= semi < ob):
            raise AnchorLost("%s: %r has no body" % (self.relpath, pattern))
        return start, ob, match_brace(self.masked, ob)

    def find_fn(self, name, within=None, nth=0):
        """Locate `fn name`.  `within` is a regex naming an enclosing block
        (impl / trait / mod / macro_rules header); nth selects among several
        matches inside that scope.  Returns dict of offsets:
          item_start  – start of the line holding attributes/docs of the fn
          sig_start   – start of the line holding `fn name` qualifiers
          fn_kw       – offset of `fn`
          body_open / body_close – braces of the body
        """
        lo, hi = 0, len(self.masked)
        if within:
            _, ob, cb = self.block_after(within)
            lo, hi = ob, cb
        pat = r"\bfn\s+%s\b" % re.escape(name)
        ms = list(re.finditer(pat, self.masked[lo:hi]))
        if len(ms) <= nth:
            raise AnchorLost("%s: fn %s%s not found" % (self.relpath, name, " within /%s/" % within if within else ""))
        fn_kw = lo + ms[nth].start()
        # body
        j = lo + ms[nth].end()
        depth_par = 0
        body_open = None
        while j < hi:
            ch = self.masked[j]
            if ch in "(<[":
                if ch != "<" or True:
                    depth_par += 1 if ch in "([" else 0
            elif ch in ")]":
                depth_par -= 1
            elif ch == "{" and depth_par == 0:
                body_open = j
                break
            elif ch == ";" and depth_par == 0:
                raise AnchorLost("%s: fn %s has no body" % (self.relpath, name))
            j += 1
        if body_open is None:
            raise AnchorLost("%s: fn %s body not found" % (self.relpath, name))
        body_close = match_brace(self.masked, body_open)
        # signature line start
        sig_start = self.text.rfind("\n", 0, fn_kw) + 1
        # walk upwards over attribute / doc lines
        item_start = sig_start
        while item_start > 0:
            prev_start = self.text.rfind("\n", 0, item_start - 1) + 1
            line = self.text[prev_start:item_start - 1].strip()
            if line.startswith("#[") or line.startswith("///"):
                item_start = prev_start
            else:
                break
        return dict(item_start=item_start, sig_start=sig_start, fn_kw=fn_kw,
                    body_open=body_open, body_close=body_close,
                    line=self.line_of(fn_kw), end_line=self.line_of(body_close))

    def fn_text(self, name, within=None, nth=0, with_attrs=False):
        loc = self.find_fn(name, within, nth)
        a = loc["item_start"] if with_attrs else loc["sig_start"]
        return self.text[a:loc["body_close"] + 1], loc

    def find_item(self, pattern):
        """A `const`/`static`/`type` item: from the match of `pattern` to the
        terminating ';' (brace/bracket aware)."""
        m = re.search(pattern, self.masked)
        if not m:
            raise AnchorLost("%s: item %r not found" % (self.relpath, pattern))
        start = self.text.rfind("\n", 0, m.start()) + 1
        j, depth = m.end(), 0
        while j < len(self.masked):
            ch = self.masked[j]
            if ch in "([{":
                depth += 1
            elif ch in ")]}":
                depth -= 1
            elif ch == ";" and depth == 0:
                return self.text[start:j + 1], self.line_of(start)
            j += 1
        raise AnchorLost("%s: item %r unterminated" % (self.relpath, pattern))


_cache = {}


def src(relpath):
    if relpath not in _cache:
        if not os.path.exists(os.path.join(REPO, relpath)):
            raise AnchorLost("file %s missing" % relpath)
        _cache[relpath] = SourceFile(relpath)
    return _cache[relpath]
