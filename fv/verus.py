"""E1: extract real functions from /repo, weave a contract overlay, run Verus.

A unit's `verus` spec (python dict, see contracts/*.py):

  prelude : str            spec fns / lemmas / type stubs placed before the functions
  items   : [ {file, pattern} ]          const/static items copied verbatim
  fns     : [ {
      file, name, within?, nth?,
      ret:      "r"                       name for the return value ( -> T  becomes -> (r: T) )
      header:   "requires .. ensures .."  inserted between signature and body
      loops:    [ {anchor, text} ]        text inserted before the '{' of the loop whose header contains `anchor`
      inserts:  [ {before|after: anchor, text} | {at: 'start', text} ]   ghost text at statement boundaries
      drops:    [ anchor-regex ]          (statement slices only) statements removed; listed in evidence
      rename:   new name (when two extracted fns collide)
      obligations: [str]                  human names of what the header states (for evidence)
    } ]
  canaries: [ str ]        proof fns that MUST fail (vacuity guard on preconditions)

Everything except `drops` is additive; the erasure check strips the overlay
and compares with the text cut from /repo.
"""
import json
import os
import re
import subprocess
import tempfile
import time

from . import sources

VERUS = os.environ.get("FV_VERUS", "verus")


class WeaveError(Exception):
    pass


def _find_anchor(body_masked, anchor, what):
    idxs = [m.start() for m in re.finditer(re.escape(anchor), body_masked)]
    if len(idxs) == 0:
        raise sources.AnchorLost("anchor %r for %s not found" % (anchor, what))
    if len(idxs) > 1:
        raise sources.AnchorLost("anchor %r for %s is ambiguous (%d matches)" % (anchor, what, len(idxs)))
    return idxs[0]


def weave_fn(spec):
    sf = sources.src(spec["file"])
    text, loc = sf.fn_text(spec["name"], spec.get("within"), spec.get("nth", 0))
    base = loc["sig_start"]
    masked = sf.masked[base:loc["body_close"] + 1]
    original = text
    dropped = []
    # --- statement drops (slices): subtractive, recorded -------------------
    drops = []
    for d in spec.get("drops", []):
        m = list(re.finditer(d, masked))
        if len(m) != 1:
            raise sources.AnchorLost("drop pattern %r in %s matched %d times" % (d, spec["name"], len(m)))
        drops.append((m[0].start(), m[0].end()))
        dropped.append(text[m[0].start():m[0].end()].strip())
    inserts = []  # (offset in `text`, string)
    substituted = []
    # --- substitutions: a callee / construct replaced by its contract stand-in (drop + insert), recorded
    for sb in spec.get("subst", []):
        ms = list(re.finditer(sb["pattern"], masked if not sb.get("raw") else text))
        want = sb.get("count", 1)
        if len(ms) != want:
            raise sources.AnchorLost("subst pattern %r in %s matched %d times (want %d)" % (sb["pattern"], spec["name"], len(ms), want))
        for m in ms:
            drops.append((m.start(), m.end()))
            inserts.append((m.start(), m.expand(sb["repl"]) if "\\" in sb["repl"] else sb["repl"], 1))
            substituted.append(dict(original=text[m.start():m.end()].strip(), replaced_by=sb["repl"], why=sb.get("why", "")))
    body_open = loc["body_open"] - base
    # --- named return -----------------------------------------------------
    if spec.get("ret"):
        arrow = masked.rfind("->", 0, body_open)
        if arrow < 0:
            raise sources.AnchorLost("fn %s has no return type to name" % spec["name"])
        tstart = arrow + 2
        while text[tstart] == " ":
            tstart += 1
        tend = body_open
        # a `where` clause ends the type
        w = re.search(r"\bwhere\b", masked[tstart:body_open])
        if w:
            tend = tstart + w.start()
        while text[tend - 1] in " \n":
            tend -= 1
        inserts.append((tstart, "(%s: " % spec["ret"], 0))
        inserts.append((tend, ")", 0))
    # --- header -----------------------------------------------------------
    if spec.get("header"):
        inserts.append((body_open, "\n    " + spec["header"].strip() + "\n"))
    # --- loop invariants --------------------------------------------------
    for lp in spec.get("loops", []):
        a = _find_anchor(masked, lp["anchor"], "loop in " + spec["name"])
        ob = masked.find("{", a + len(lp["anchor"]))
        inserts.append((ob, "\n        " + lp["text"].strip() + "\n    "))
    # --- ghost inserts ----------------------------------------------------
    for ins in spec.get("inserts", []):
        if ins.get("at") == "start":
            a = text.find("\n", body_open) + 1
        elif "before" in ins:
            a = _find_anchor(masked, ins["before"], "insert in " + spec["name"])
            a = text.rfind("\n", 0, a) + 1
        else:
            a = _find_anchor(masked, ins["after"], "insert in " + spec["name"])
            a = text.find("\n", a) + 1
        inserts.append((a, ins["text"].rstrip() + "\n"))
    # --- rename -----------------------------------------------------------
    renames = []
    if spec.get("rename"):
        k = loc["fn_kw"] - base
        m = re.match(r"fn\s+", text[k:])
        renames.append((k + m.end(), k + m.end() + len(spec["name"]), spec["rename"]))
    # --- assemble ---------------------------------------------------------
    events = [(i[0], i[2] if len(i) > 2 else 2, i[1]) for i in inserts]
    out, pos = [], 0
    marks = []  # spans of inserted text in the woven output
    segs = sorted(events, key=lambda e: (e[0], e[1]))
    cut = sorted(drops)
    ren = sorted(renames)
    woven_len = 0

    def emit(s, inserted=False):
        nonlocal woven_len
        if inserted:
            marks.append((woven_len, woven_len + len(s)))
        out.append(s)
        woven_len += len(s)

    # merge all edit points
    points = sorted(set([o for o, _, _ in segs] + [a for a, _ in cut] + [b for _, b in cut] + [a for a, _, _ in ren] + [b for _, b, _ in ren] + [0, len(text)]))
    for i, p in enumerate(points):
        for o, _, s in segs:
            if o == p:
                emit(s, True)
        if i + 1 < len(points):
            q = points[i + 1]
            if any(a <= p and q <= b for a, b in cut):
                continue
            rr = [r for r in ren if r[0] == p and r[1] == q]
            if rr:
                emit(rr[0][2], True)
                # remember the original name for erasure
                marks[-1] = (marks[-1][0], marks[-1][1], text[p:q])
            else:
                emit(text[p:q])
    woven = "".join(out)
    # --- erasure check ----------------------------------------------------
    erased = woven
    for mk in sorted(marks, key=lambda m: -m[0]):
        repl = mk[2] if len(mk) > 2 else ""
        erased = erased[:mk[0]] + repl + erased[mk[1]:]
    expect = original
    for a, b in sorted(cut, reverse=True):
        expect = expect[:a] + expect[b:]
    if erased != expect:
        raise WeaveError("erasure check failed for %s" % spec["name"])
    attrs = sf.text[loc["item_start"]:loc["sig_start"]].strip()
    info = dict(file=spec["file"], fn=spec["name"], within=spec.get("within"),
                line=loc["line"], end_line=loc["end_line"],
                dropped_attrs_and_docs=attrs, dropped_statements=dropped, substitutions=substituted,
                sha256=sources.sha256_file(spec["file"]))
    return woven, marks, info, loc


def build_file(unit_id, vspec, with_canaries=False):
    parts = ["// generated by /verif/fv/verus.py for unit %s -- DO NOT EDIT\n" % unit_id,
             "#![allow(unused)]\nuse vstd::prelude::*;\nverus! {\n",
             "global size_of usize == 8;\n"]
    parts.append(vspec.get("prelude", ""))
    parts.append("\n")
    infos = []
    for it in vspec.get("items", []):
        t, line = sources.src(it["file"]).find_item(it["pattern"])
        parts.append("// verbatim from %s:%d\n%s\n" % (it["file"], line, t))
        infos.append(dict(file=it["file"], item=it["pattern"], line=line, sha256=sources.sha256_file(it["file"])))
    fn_spans = []  # (first_line, last_line, name, spec, marks-lines, loc)
    for fs in vspec.get("fns", []):
        woven, marks, info, loc = weave_fn(fs)
        infos.append(info)
        cur = "".join(parts)
        first = cur.count("\n") + 2
        parts.append("// verbatim from %s:%d (overlay woven)\n" % (fs["file"], loc["line"]))
        if fs.get("wrap_before"):
            parts.append(fs["wrap_before"].rstrip() + "\n")
            first += fs["wrap_before"].rstrip().count("\n") + 1
        parts.append(woven + "\n")
        if fs.get("wrap_after"):
            parts.append(fs["wrap_after"].rstrip() + "\n")
        parts.append("\n")
        # line classification inside the woven text
        ins_lines = set()
        for mk in marks:
            a, b = mk[0], mk[1]
            la = woven.count("\n", 0, a)
            lb = woven.count("\n", 0, b)
            if b > a and woven[b - 1] == "\n":
                lb -= 1
            # lines fully or partly made of inserted text
            for k in range(la, lb + 1):
                ins_lines.add(first + k)
        fn_spans.append(dict(first=first, last=first + woven.count("\n"), name=fs.get("rename") or fs["name"],
                             spec=fs, ins_lines=ins_lines, woven=woven, src_line=loc["line"]))
    parts.append(vspec.get("lemmas_after", ""))
    canary_spans = []
    if with_canaries:
        for c in vspec.get("canaries", []):
            cur = "".join(parts)
            first = cur.count("\n") + 1
            parts.append(c.strip() + "\n")
            m = re.search(r"fn\s+(\w+)", c)
            canary_spans.append(dict(first=first, last=first + c.strip().count("\n"), name=m.group(1)))
    parts.append("\n} // verus!\nfn main() {}\n")
    return "".join(parts), fn_spans, canary_spans, infos


_ERR_RE = re.compile(r"^(error|note)(?:\[[^\]]+\])?: (.*)$")
_LOC_RE = re.compile(r"^\s*--> ([^:]+):(\d+):(\d+)")


def parse_errors(stderr):
    """[(kind, message, line)] for every `error:` with its first location."""
    res, cur = [], None
    for ln in stderr.splitlines():
        m = _ERR_RE.match(ln)
        if m:
            cur = [m.group(1), m.group(2), None]
            res.append(cur)
            continue
        m = _LOC_RE.match(ln)
        if m and cur is not None and cur[2] is None:
            cur[2] = int(m.group(2))
    return [tuple(r) for r in res if r[0] == "error" and not r[1].startswith("aborting")]


def run_verus(path, timeout=300, extra=()):
    t0 = time.time()
    try:
        p = subprocess.run([VERUS, path, "--output-json", "--time", "--multiple-errors", "50"] + list(extra),
                           capture_output=True, text=True, timeout=timeout, cwd=os.path.dirname(path))
    except subprocess.TimeoutExpired:
        return dict(status="timeout", wall_s=time.time() - t0, stderr="", verified=0, errors=0, smt_ms=0, raw={})
    wall = time.time() - t0
    js = {}
    out = p.stdout
    k = out.find("{")
    if k >= 0:
        try:
            js = json.loads(out[k:])
        except Exception:
            js = {}
    vr = js.get("verification-results", {})
    tm = js.get("times-ms", {})
    smt = 0
    try:
        smt = tm["verification"]["smt"]["total"]
    except Exception:
        pass
    status = "ok" if vr.get("success") else "failed"
    if not vr:
        status = "tool_error"
    elif vr.get("encountered-vir-error"):
        status = "tool_error"
    return dict(status=status, wall_s=wall, stderr=p.stderr, verified=vr.get("verified", 0),
                errors=vr.get("errors", 0), smt_ms=smt, raw=js, rc=p.returncode)


def check_unit(unit_id, vspec, workdir, timeout=300):
    """Returns a result dict:
       status: ok | failed | inconclusive
       obligations: [ {name, fn, status, detail} ]
       functions: infos
    """
    res = dict(unit=unit_id, engine="verus", obligations=[], functions=[], wall_s=0.0, smt_ms=0,
               status="ok", notes=[], woven_path=None, raw_stderr="")
    try:
        text, fn_spans, _, infos = build_file(unit_id, vspec)
    except sources.AnchorLost as e:
        res["status"] = "inconclusive"
        res["notes"].append("anchor lost: %s" % e)
        return res
    except WeaveError as e:
        res["status"] = "inconclusive"
        res["notes"].append(str(e))
        return res
    res["functions"] = infos
    path = os.path.join(workdir, "%s.rs" % unit_id.lower())
    with open(path, "w") as f:
        f.write(text)
    res["woven_path"] = path
    r = run_verus(path, timeout)
    res["wall_s"] += r["wall_s"]
    res["smt_ms"] += r["smt_ms"]
    res["raw_stderr"] = r["stderr"]
    res["verified_fns"] = r["verified"]
    if r["status"] == "timeout":
        res["status"] = "inconclusive"
        res["notes"].append("verus timeout after %ds" % timeout)
        return res
    errs = parse_errors(r["stderr"])
    if r["status"] == "tool_error" or (r["status"] == "failed" and not errs):
        res["status"] = "inconclusive"
        res["notes"].append("verus tool error: " + r["stderr"][-2000:])
        return res
    # lemmas stated in the prelude (no repository text): each is its own named obligation
    lines = text.splitlines()
    for lname, lclaim in vspec.get("lemmas", []):
        first = next((i + 1 for i, l in enumerate(lines) if re.search(r"\bproof fn %s\b" % re.escape(lname), l)), None)
        if first is None:
            res["status"] = "inconclusive"
            res["notes"].append("lemma %s not found in the prelude" % lname)
            continue
        last = first
        depth = 0
        seen = False
        for j in range(first - 1, len(lines)):
            depth += lines[j].count("{") - lines[j].count("}")
            if "{" in lines[j]:
                seen = True
            if seen and depth <= 0:
                last = j + 1
                break
        fn_spans.append(dict(first=first, last=last, name=lname, spec=dict(obligations=[lclaim]), ins_lines=set(range(first, last + 1)),
                             woven="", src_line=None))
    # classify errors per function
    failed = {}
    unsupported = []
    for kind, msg, line in errs:
        if line is None:
            unsupported.append(msg)
            continue
        span = next((s for s in fn_spans if s["first"] <= line <= s["last"]), None)
        is_vc = re.search(r"postcondition not satisfied|precondition not satisfied|assertion failed|possible arithmetic underflow/overflow|possible division by zero|invariant not satisfied|possible bit shift underflow/overflow|index out of bounds|decreases not satisfied|recommendation not met|might not be allowed at this type|could not finish|Resource limit|not be able to prove", msg, re.I)
        where = lines[line - 1].strip() if 0 < line <= len(lines) else ""
        if not is_vc:
            unsupported.append("%s @ %s" % (msg, where))
            continue
        if re.search(r"Resource limit|could not finish", msg, re.I):
            res["notes"].append("rlimit: " + msg)
            res["status"] = "inconclusive"
            continue
        if span is None:
            # failure inside prelude lemma: machinery problem, not a violation
            unsupported.append("prelude proof failed: %s @ %s" % (msg, where))
            continue
        src_line = None
        if line not in span["ins_lines"]:
            # map back to /repo line: count non-inserted lines
            k = sum(1 for l in range(span["first"], line) if l not in span["ins_lines"] or True)
        failed.setdefault(span["name"], []).append(dict(msg=msg, woven_line=line, text=where,
                                                        in_overlay=line in span["ins_lines"]))
    if unsupported and res["status"] != "failed":
        res["status"] = "inconclusive"
        res["notes"] += ["verus rejected: " + u for u in unsupported]
    for s in fn_spans:
        obls = s["spec"].get("obligations") or ["contract of " + s["name"]]
        if s["name"] in failed:
            res["obligations"].append(dict(name="%s::%s" % (unit_id, s["name"]), fn=s["name"], status="failed",
                                           clauses=obls, detail=failed[s["name"]]))
            if res["status"] == "ok":
                res["status"] = "failed"
        else:
            st = "discharged" if res["status"] in ("ok", "failed") and not unsupported else "undecided"
            res["obligations"].append(dict(name="%s::%s" % (unit_id, s["name"]), fn=s["name"], status=st,
                                           clauses=obls, detail=[]))
    # --- vacuity canaries ---------------------------------------------------
    if vspec.get("canaries") and res["status"] == "ok":
        ctext, _, cspans, _ = build_file(unit_id, vspec, with_canaries=True)
        cpath = os.path.join(workdir, "%s_canary.rs" % unit_id.lower())
        with open(cpath, "w") as f:
            f.write(ctext)
        cr = run_verus(cpath, timeout)
        res["wall_s"] += cr["wall_s"]
        cerrs = parse_errors(cr["stderr"])
        hit = set()
        for kind, msg, line in cerrs:
            for c in cspans:
                if line is not None and c["first"] <= line <= c["last"]:
                    hit.add(c["name"])
        missing = [c["name"] for c in cspans if c["name"] not in hit]
        res["canaries"] = dict(total=len(cspans), failed_as_expected=len(hit))
        if missing:
            res["status"] = "inconclusive"
            res["notes"].append("vacuity: canary %s verified, preconditions are contradictory" % missing)
    return res
