"""Known findings: committed file, read-only at run time."""
import json
import os
import re

PATH = os.path.join(os.path.dirname(os.path.dirname(os.path.abspath(__file__))), "known_findings.json")


def load():
    if not os.path.exists(PATH):
        return dict(findings=[], fixed=[])
    return json.load(open(PATH))


def match(finding, prop, obligation, failed_check):
    """A finding is keyed by property, obligation (harness / verus fn) and a
    description + location pattern of the failing check, so that a different
    failure of the same obligation is still reported."""
    if finding.get("property") != prop:
        return False
    if finding.get("obligation") != obligation:
        return False
    m = finding.get("match", {})
    for key in ("description", "function", "text"):
        if key in m:
            if not re.search(m[key], str(failed_check.get(key) or failed_check.get("msg") or "")):
                return False
    return True


def lookup(prop, obligation, failed_check):
    for f in load().get("findings", []):
        if match(f, prop, obligation, failed_check):
            return f
    return None
