#!/usr/bin/env python3
"""Markdown table of the seeded defects under /verif/seeded (from their meta.json)."""
import glob
import json
import os

ROOT = os.path.dirname(os.path.dirname(os.path.abspath(__file__)))
rows = []
for d in sorted(glob.glob(os.path.join(ROOT, "seeded", "*"))):
    mp = os.path.join(d, "meta.json")
    if not os.path.exists(mp):
        continue
    m = json.load(open(mp))
    what = m.get("summary", "")
    ran = m.get("ran", [])
    det = [r for r in ran if r.get("detected")]
    viol = []
    for r in det:
        for l in r.get("output", []):
            if l.startswith("VIOLATION"):
                tail = l.split("replay=")[1].split()
                nm = tail[0].split("/")[-1].rsplit("-", 1)[0].replace(r["check"] + "-", "", 1).replace("_", "::", 1)
                viol.append(nm + (" (no input)" if len(tail) > 1 else ""))
    rows.append((m["id"], "yes" if m.get("confirmed") else "NO", "yes" if m.get("applies_to_repo_head", True) else "no (code changed by a later fix)",
                 ", ".join("%s: exit %s" % (r["check"], r["exit"]) for r in ran) or "-", ", ".join(sorted(set(viol))[:4]) or "-", what))
print("| seed | confirmed (demo + suite) | applies to final HEAD | checks run | obligations that reported it | what it needs to manifest |")
print("|---|---|---|---|---|---|")
for r in rows:
    print("| %s | %s | %s | %s | %s | %s |" % r)
