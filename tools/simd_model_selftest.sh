#!/bin/sh
# E4 differential self-test: every instruction model of contracts/simd_models.rs (alpha kernels + K9 convolution kernels) against the real instruction of THIS host.
#   edge values per lane + N pseudo-random vectors (fixed seed) per model; one line per model; exit 1 on any difference.
#   Host without SSE4.1 (or AVX2): the models of that ISA are reported "unvalidated" and the exit status stays 0.
# usage: tools/simd_model_selftest.sh [N]        (default N = 200000 random vectors per model)
set -eu
HERE=$(cd "$(dirname "$0")" && pwd)
MODELS=${SIMD_MODELS_FILE:-"$HERE/../contracts/simd_models.rs"}   # override only for must-fail experiments
N=${1:-200000}
[ -f "$MODELS" ] || { echo "simd_models.rs not found at $MODELS" >&2; exit 2; }
case "$(uname -m)" in
  x86_64) ;;
  *) echo "E4 self-test: host is $(uname -m), not x86_64 - all models unvalidated"; exit 0 ;;
esac
WORK=$(mktemp -d /tmp/fir-simd-selftest.XXXXXX)
trap 'rm -rf "$WORK"' EXIT INT TERM
cat > "$WORK/main.rs" <<'RUST_EOF'
#![allow(unused_unsafe, dead_code, non_snake_case, clippy::all)]
use std::arch::x86_64::*;
use std::mem::transmute;

mod fv_simd {
    include!(env!("SIMD_MODELS"));
}
use fv_simd::*;

// ------------------------------------------------------------ deterministic generator (xorshift64*)
struct Rng(u64);
impl Rng {
    fn next(&mut self) -> u64 {
        let mut x = self.0;
        x ^= x >> 12;
        x ^= x << 25;
        x ^= x >> 27;
        self.0 = x;
        x.wrapping_mul(0x2545F4914F6CDD1D)
    }
}

const E8: [u8; 12] = [0, 1, 2, 0x0f, 0x10, 0x7e, 0x7f, 0x80, 0x81, 0x8f, 0xfe, 0xff];
const E16: [u16; 16] = [0, 1, 2, 0x7f, 0x80, 0xff, 0x100, 0x101, 0x3fff, 0x4000, 0x7fff, 0x8000, 0x8001, 0xff00, 0xfffe, 0xffff];
const E32: [u32; 20] = [0, 1, 2, 0xff, 0x100, 0x7fff, 0x8000, 0xffff, 0x1_0000, 0x1_0001, 0xff_ffff, 0x100_0000, 0x100_0001,
    0x7fff_ffff, 0x8000_0000, 0x8000_0001, 0xffff_0000, 0xffff_7fff, 0xffff_fffe, 0xffff_ffff];
fn ef32() -> Vec<f32> {
    let mut v: Vec<f32> = vec![0.0, -0.0, 1.0, -1.0, 0.5, -0.5, 1.5, -1.5, 2.5, -2.5, 3.5, 0.49999997, 0.50000006, -0.49999997,
        255.0, 256.0, 65280.0, 65535.0, 65535.5, 65536.0, 8388607.5, 8388608.0, 8388609.0, -8388607.5, 16777215.0, 16777216.0,
        2147483520.0, 2147483648.0, -2147483648.0, -2147483904.0, 4294967296.0, 4294836225.0, 1e-45, -1e-45, 1.1754942e-38, 1.17549435e-38,
        f32::MAX, f32::MIN, f32::INFINITY, f32::NEG_INFINITY, f32::NAN, -f32::NAN, f32::EPSILON, 0.1, 1.0 / 3.0, 3.0, 7.0];
    v.push(f32::from_bits(0x7f80_0001)); // signalling NaN
    v.push(f32::from_bits(0xffc1_2345)); // negative quiet NaN with payload
    v
}

/// the test vectors of one operand slot (16 or 32 bytes each): edge patterns for every lane width, then random ones
fn int_vectors<const B: usize>(rng: &mut Rng, n: usize, salt: usize) -> Vec<[u8; B]> {
    let mut out = Vec::with_capacity(n + 512);
    // every edge value splatted over all lanes (8-, 16-, 32-bit lanes)
    for &e in E8.iter() { out.push([e; B]); }
    for &e in E16.iter() { let mut v = [0u8; B]; for i in 0..B / 2 { v[2 * i..2 * i + 2].copy_from_slice(&e.to_le_bytes()); } out.push(v); }
    for &e in E32.iter() { let mut v = [0u8; B]; for i in 0..B / 4 { v[4 * i..4 * i + 4].copy_from_slice(&e.to_le_bytes()); } out.push(v); }
    // rotating edge values: lane i holds edge[(i * step + k + salt) % len] so that every lane sees every edge value
    for k in 0..E8.len() { for step in [1usize, 5, 7] { let mut v = [0u8; B]; for i in 0..B { v[i] = E8[(i * step + k + salt) % E8.len()]; } out.push(v); } }
    for k in 0..E16.len() { for step in [1usize, 3, 7] { let mut v = [0u8; B]; for i in 0..B / 2 { v[2 * i..2 * i + 2].copy_from_slice(&E16[(i * step + k + salt) % E16.len()].to_le_bytes()); } out.push(v); } }
    for k in 0..E32.len() { for step in [1usize, 3, 7] { let mut v = [0u8; B]; for i in 0..B / 4 { v[4 * i..4 * i + 4].copy_from_slice(&E32[(i * step + k + salt) % E32.len()].to_le_bytes()); } out.push(v); } }
    for _ in 0..n {
        let mut v = [0u8; B];
        for c in v.chunks_mut(8) { let r = rng.next().to_le_bytes(); c.copy_from_slice(&r[..c.len()]); }
        out.push(v);
    }
    out
}
fn f32_vectors<const L: usize>(rng: &mut Rng, n: usize, salt: usize) -> Vec<[f32; L]> {
    let e = ef32();
    let mut out = Vec::with_capacity(n + 512);
    for &x in e.iter() { out.push([x; L]); }
    for k in 0..e.len() { for step in [1usize, 3, 5, 7, 11] { let mut v = [0f32; L]; for i in 0..L { v[i] = e[(i * step + k + salt * 13) % e.len()]; } out.push(v); } }
    for j in 0..n {
        let mut v = [0f32; L];
        for i in 0..L {
            let r = rng.next();
            v[i] = match j % 4 {
                0 => f32::from_bits(r as u32),                                             // any bit pattern
                1 => ((r as u32 as i32) as f32) / ((1u32 << ((r >> 32) % 10)) as f32),     // integers and binary fractions (ties!)
                2 => ((r & 0xffff) as f32) * if r >> 63 == 0 { 1.0 } else { 65535.0 },     // the values the alpha kernels feed
                _ => (((r >> 40) as f32) - 8388608.0) / 2.0,                                // halves around zero
            };
        }
        out.push(v);
    }
    out
}

struct Tally { failed: bool }
impl Tally {
    fn line(&mut self, name: &str, n: usize, bad: usize, first: Option<String>) {
        if bad == 0 {
            println!("{:<22} OK        {} vectors", name, n);
        } else {
            self.failed = true;
            println!("{:<22} MISMATCH  {} of {} vectors; first: {}", name, bad, n, first.unwrap_or_default());
        }
    }
}
fn same_f32(a: u32, b: u32) -> bool {
    a == b || (f32::from_bits(a).is_nan() && f32::from_bits(b).is_nan())
}

macro_rules! bin_i128 { ($t:expr, $rng:expr, $n:expr, $real:ident, $model:ident) => {{
    let (va, vb) = (int_vectors::<16>($rng, $n, 0), int_vectors::<16>($rng, $n, 3));
    let (mut bad, mut first) = (0usize, None);
    for (a, b) in va.iter().zip(vb.iter()) {
        let (x, y): (__m128i, __m128i) = unsafe { (transmute(*a), transmute(*b)) };
        let r: [u8; 16] = unsafe { transmute($real(x, y)) };
        let m: [u8; 16] = unsafe { transmute($model(x, y)) };
        if r != m { bad += 1; if first.is_none() { first = Some(format!("a={:02x?} b={:02x?} real={:02x?} model={:02x?}", a, b, r, m)); } }
    }
    $t.line(stringify!($model), va.len(), bad, first);
}}; }
macro_rules! bin_i256 { ($t:expr, $rng:expr, $n:expr, $real:ident, $model:ident) => {{
    let (va, vb) = (int_vectors::<32>($rng, $n, 0), int_vectors::<32>($rng, $n, 3));
    let (mut bad, mut first) = (0usize, None);
    for (a, b) in va.iter().zip(vb.iter()) {
        let (x, y): (__m256i, __m256i) = unsafe { (transmute(*a), transmute(*b)) };
        let r: [u8; 32] = unsafe { transmute($real(x, y)) };
        let m: [u8; 32] = unsafe { transmute($model(x, y)) };
        if r != m { bad += 1; if first.is_none() { first = Some(format!("a={:02x?} b={:02x?} real={:02x?} model={:02x?}", a, b, r, m)); } }
    }
    $t.line(stringify!($model), va.len(), bad, first);
}}; }
macro_rules! tern_i128 { ($t:expr, $rng:expr, $n:expr, $real:ident, $model:ident) => {{
    let (va, vb, vc) = (int_vectors::<16>($rng, $n, 0), int_vectors::<16>($rng, $n, 3), int_vectors::<16>($rng, $n, 5));
    let (mut bad, mut first) = (0usize, None);
    for ((a, b), c) in va.iter().zip(vb.iter()).zip(vc.iter()) {
        let (x, y, z): (__m128i, __m128i, __m128i) = unsafe { (transmute(*a), transmute(*b), transmute(*c)) };
        let r: [u8; 16] = unsafe { transmute($real(x, y, z)) };
        let m: [u8; 16] = unsafe { transmute($model(x, y, z)) };
        if r != m { bad += 1; if first.is_none() { first = Some(format!("a={:02x?} b={:02x?} c={:02x?} real={:02x?} model={:02x?}", a, b, c, r, m)); } }
    }
    $t.line(stringify!($model), va.len(), bad, first);
}}; }
macro_rules! tern_i256 { ($t:expr, $rng:expr, $n:expr, $real:ident, $model:ident) => {{
    let (va, vb, vc) = (int_vectors::<32>($rng, $n, 0), int_vectors::<32>($rng, $n, 3), int_vectors::<32>($rng, $n, 5));
    let (mut bad, mut first) = (0usize, None);
    for ((a, b), c) in va.iter().zip(vb.iter()).zip(vc.iter()) {
        let (x, y, z): (__m256i, __m256i, __m256i) = unsafe { (transmute(*a), transmute(*b), transmute(*c)) };
        let r: [u8; 32] = unsafe { transmute($real(x, y, z)) };
        let m: [u8; 32] = unsafe { transmute($model(x, y, z)) };
        if r != m { bad += 1; if first.is_none() { first = Some(format!("a={:02x?} b={:02x?} c={:02x?} real={:02x?} model={:02x?}", a, b, c, r, m)); } }
    }
    $t.line(stringify!($model), va.len(), bad, first);
}}; }
// f32 x f32 -> f32 (bits compared; NaN == NaN)
macro_rules! bin_ps { ($t:expr, $rng:expr, $n:expr, $L:literal, $V:ty, $name:expr, $real:expr, $model:expr) => {{
    let (va, vb) = (f32_vectors::<$L>($rng, $n, 0), f32_vectors::<$L>($rng, $n, 1));
    let (mut bad, mut first) = (0usize, None);
    for (a, b) in va.iter().zip(vb.iter()) {
        let (x, y): ($V, $V) = unsafe { (transmute(*a), transmute(*b)) };
        let r: [u32; $L] = unsafe { transmute($real(x, y)) };
        let m: [u32; $L] = unsafe { transmute($model(x, y)) };
        if !r.iter().zip(m.iter()).all(|(p, q)| same_f32(*p, *q)) { bad += 1; if first.is_none() { first = Some(format!("a={:?} b={:?} real={:08x?} model={:08x?}", a, b, r, m)); } }
    }
    $t.line($name, va.len(), bad, first);
}}; }
// f32 x f32 -> mask / bitwise result (bits compared exactly)
macro_rules! bin_ps_bits { ($t:expr, $rng:expr, $n:expr, $L:literal, $V:ty, $name:expr, $real:expr, $model:expr) => {{
    let (va, mut vb) = (f32_vectors::<$L>($rng, $n, 0), f32_vectors::<$L>($rng, $n, 1));
    // equal operands must occur too (comparison predicates)
    for (i, b) in vb.iter_mut().enumerate() { if i % 5 == 0 { *b = va[i]; } if i % 7 == 0 { b[i % $L] = va[i][i % $L]; } }
    let (mut bad, mut first) = (0usize, None);
    for (a, b) in va.iter().zip(vb.iter()) {
        let (x, y): ($V, $V) = unsafe { (transmute(*a), transmute(*b)) };
        let r: [u32; $L] = unsafe { transmute($real(x, y)) };
        let m: [u32; $L] = unsafe { transmute($model(x, y)) };
        if r != m { bad += 1; if first.is_none() { first = Some(format!("a={:?} b={:?} real={:08x?} model={:08x?}", a, b, r, m)); } }
    }
    $t.line($name, va.len(), bad, first);
}}; }
macro_rules! cmp256_all { ($t:expr, $rng:expr, $n:expr, $($imm:literal)*) => {{ $(
    bin_ps_bits!($t, $rng, $n / 8, 8, __m256, concat!("mm256_cmp_ps::<", stringify!($imm), ">"), _mm256_cmp_ps::<$imm>, mm256_cmp_ps::<$imm>);
)* }}; }

#[target_feature(enable = "sse2,ssse3,sse4.1")]
unsafe fn run_sse(t: &mut Tally, rng: &mut Rng, n: usize) {
    bin_i128!(t, rng, n, _mm_shuffle_epi8, mm_shuffle_epi8);
    bin_i128!(t, rng, n, _mm_packus_epi16, mm_packus_epi16);
    bin_i128!(t, rng, n, _mm_packus_epi32, mm_packus_epi32);
    bin_i128!(t, rng, n, _mm_mulhrs_epi16, mm_mulhrs_epi16);
    bin_i128!(t, rng, n, _mm_add_epi16, mm_add_epi16);
    bin_i128!(t, rng, n, _mm_add_epi32, mm_add_epi32);
    bin_i128!(t, rng, n, _mm_mullo_epi16, mm_mullo_epi16);
    bin_i128!(t, rng, n, _mm_mullo_epi32, mm_mullo_epi32);
    bin_i128!(t, rng, n, _mm_min_epu16, mm_min_epu16);
    tern_i128!(t, rng, n, _mm_blendv_epi8, mm_blendv_epi8);
    // conversions
    {
        let va = int_vectors::<16>(rng, n, 0);
        let (mut bad, mut first) = (0usize, None);
        for a in va.iter() {
            let x: __m128i = transmute(*a);
            let r: [u32; 4] = transmute(_mm_cvtepi32_ps(x));
            let m: [u32; 4] = transmute(mm_cvtepi32_ps(x));
            if r != m { bad += 1; if first.is_none() { first = Some(format!("a={:02x?} real={:08x?} model={:08x?}", a, r, m)); } }
        }
        t.line("mm_cvtepi32_ps", va.len(), bad, first);
        let va = f32_vectors::<4>(rng, n, 0);
        let (mut bad, mut first) = (0usize, None);
        for a in va.iter() {
            let x: __m128 = transmute(*a);
            let r: [i32; 4] = transmute(_mm_cvtps_epi32(x));
            let m: [i32; 4] = transmute(mm_cvtps_epi32(x));
            if r != m { bad += 1; if first.is_none() { first = Some(format!("a={:?} real={:?} model={:?}", a, r, m)); } }
        }
        t.line("mm_cvtps_epi32", va.len(), bad, first);
    }
    bin_ps_bits!(t, rng, n, 4, __m128, "mm_cmpneq_ps", _mm_cmpneq_ps, mm_cmpneq_ps);
    bin_ps_bits!(t, rng, n, 4, __m128, "mm_and_ps", _mm_and_ps, mm_and_ps);
    bin_ps!(t, rng, n, 4, __m128, "mm_mul_ps", _mm_mul_ps, mm_mul_ps);
    bin_ps!(t, rng, n, 4, __m128, "mm_div_ps", _mm_div_ps, mm_div_ps);
}

#[target_feature(enable = "avx,avx2")]
unsafe fn run_avx2(t: &mut Tally, rng: &mut Rng, n: usize) {
    bin_i256!(t, rng, n, _mm256_shuffle_epi8, mm256_shuffle_epi8);
    bin_i256!(t, rng, n, _mm256_packus_epi16, mm256_packus_epi16);
    bin_i256!(t, rng, n, _mm256_packus_epi32, mm256_packus_epi32);
    bin_i256!(t, rng, n, _mm256_mulhrs_epi16, mm256_mulhrs_epi16);
    bin_i256!(t, rng, n, _mm256_add_epi16, mm256_add_epi16);
    bin_i256!(t, rng, n, _mm256_add_epi32, mm256_add_epi32);
    bin_i256!(t, rng, n, _mm256_mullo_epi16, mm256_mullo_epi16);
    bin_i256!(t, rng, n, _mm256_mullo_epi32, mm256_mullo_epi32);
    bin_i256!(t, rng, n, _mm256_min_epu16, mm256_min_epu16);
    tern_i256!(t, rng, n, _mm256_blendv_epi8, mm256_blendv_epi8);
    {
        let va = int_vectors::<32>(rng, n, 0);
        let (mut bad, mut first) = (0usize, None);
        for a in va.iter() {
            let x: __m256i = transmute(*a);
            let r: [u32; 8] = transmute(_mm256_cvtepi32_ps(x));
            let m: [u32; 8] = transmute(mm256_cvtepi32_ps(x));
            if r != m { bad += 1; if first.is_none() { first = Some(format!("a={:02x?} real={:08x?} model={:08x?}", a, r, m)); } }
        }
        t.line("mm256_cvtepi32_ps", va.len(), bad, first);
        let va = f32_vectors::<8>(rng, n, 0);
        let (mut bad, mut first) = (0usize, None);
        for a in va.iter() {
            let x: __m256 = transmute(*a);
            let r: [i32; 8] = transmute(_mm256_cvtps_epi32(x));
            let m: [i32; 8] = transmute(mm256_cvtps_epi32(x));
            if r != m { bad += 1; if first.is_none() { first = Some(format!("a={:?} real={:?} model={:?}", a, r, m)); } }
        }
        t.line("mm256_cvtps_epi32", va.len(), bad, first);
    }
    // all 32 predicates, n/8 random vectors each; the kernels use _CMP_NEQ_UQ (4) which gets the full count below
    cmp256_all!(t, rng, n, 0 1 2 3 4 5 6 7 8 9 10 11 12 13 14 15 16 17 18 19 20 21 22 23 24 25 26 27 28 29 30 31);
    bin_ps_bits!(t, rng, n, 8, __m256, "mm256_cmp_ps::<_CMP_NEQ_UQ>", _mm256_cmp_ps::<_CMP_NEQ_UQ>, mm256_cmp_ps::<_CMP_NEQ_UQ>);
    bin_ps_bits!(t, rng, n, 8, __m256, "mm256_and_ps", _mm256_and_ps, mm256_and_ps);
    bin_ps!(t, rng, n, 8, __m256, "mm256_mul_ps", _mm256_mul_ps, mm256_mul_ps);
    bin_ps!(t, rng, n, 8, __m256, "mm256_div_ps", _mm256_div_ps, mm256_div_ps);
}

// ------------------------------------------------------------ K9 (convolution kernels): unary / const-generic forms
// $real and $model are expressions (closures or paths) from one input vector of IN bytes to OUT bytes; CMP = number of leading bytes compared
macro_rules! un_bytes { ($t:expr, $rng:expr, $n:expr, $IN:literal, $TI:ty, $OUT:literal, $CMP:expr, $name:expr, $real:expr, $model:expr) => {{
    let va = int_vectors::<$IN>($rng, $n, 0);
    let (mut bad, mut first) = (0usize, None);
    for a in va.iter() {
        let x: $TI = unsafe { transmute(*a) };
        let r: [u8; $OUT] = unsafe { transmute($real(x)) };
        let m: [u8; $OUT] = unsafe { transmute($model(x)) };
        if r[..$CMP] != m[..$CMP] { bad += 1; if first.is_none() { first = Some(format!("a={:02x?} real={:02x?} model={:02x?}", a, r, m)); } }
    }
    $t.line($name, va.len(), bad, first);
}}; }
macro_rules! srai128_all { ($t:expr, $rng:expr, $n:expr, $($imm:literal)*) => {{ $(
    un_bytes!($t, $rng, $n / 4, 16, __m128i, 16, 16, concat!("mm_srai_epi32::<", stringify!($imm), ">"), _mm_srai_epi32::<$imm>, mm_srai_epi32::<$imm>);
)* }}; }
macro_rules! srai256_all { ($t:expr, $rng:expr, $n:expr, $($imm:literal)*) => {{ $(
    un_bytes!($t, $rng, $n / 4, 32, __m256i, 32, 32, concat!("mm256_srai_epi32::<", stringify!($imm), ">"), _mm256_srai_epi32::<$imm>, mm256_srai_epi32::<$imm>);
)* }}; }
macro_rules! shufd_all { ($t:expr, $rng:expr, $n:expr, $($imm:literal)*) => {{ $(
    un_bytes!($t, $rng, $n / 4, 16, __m128i, 16, 16, concat!("mm_shuffle_epi32::<", stringify!($imm), ">"), _mm_shuffle_epi32::<$imm>, mm_shuffle_epi32::<$imm>);
)* }}; }
// (ymm, xmm) -> ymm
macro_rules! ins128 { ($t:expr, $rng:expr, $n:expr, $name:expr, $real:expr, $model:expr) => {{
    let (va, vb) = (int_vectors::<32>($rng, $n, 0), int_vectors::<16>($rng, $n, 3));
    let (mut bad, mut first) = (0usize, None);
    for (a, b) in va.iter().zip(vb.iter()) {
        let (x, y): (__m256i, __m128i) = unsafe { (transmute(*a), transmute(*b)) };
        let r: [u8; 32] = unsafe { transmute($real(x, y)) };
        let m: [u8; 32] = unsafe { transmute($model(x, y)) };
        if r != m { bad += 1; if first.is_none() { first = Some(format!("a={:02x?} b={:02x?} real={:02x?} model={:02x?}", a, b, r, m)); } }
    }
    $t.line($name, va.len(), bad, first);
}}; }

#[target_feature(enable = "sse2,ssse3,sse4.1")]
unsafe fn run_sse_k9(t: &mut Tally, rng: &mut Rng, n: usize) {
    bin_i128!(t, rng, n, _mm_madd_epi16, mm_madd_epi16);
    bin_i128!(t, rng, n, _mm_packs_epi32, mm_packs_epi32);
    // every shift count the kernels can instantiate (constify_imm8!: 1..=31) plus the saturating counts
    srai128_all!(t, rng, n, 0 1 2 3 4 5 6 7 8 9 10 11 12 13 14 15 16 17 18 19 20 21 22 23 24 25 26 27 28 29 30 31 32 33 64 128 255);
    un_bytes!(t, rng, n, 16, __m128i, 16, 16, "mm_cvtepu8_epi32", _mm_cvtepu8_epi32, mm_cvtepu8_epi32);
    un_bytes!(t, rng, n, 16, __m128i, 16, 16, "mm_cvtepu8_epi16", _mm_cvtepu8_epi16, mm_cvtepu8_epi16);
    un_bytes!(t, rng, n, 16, __m128i, 8, 8, "mm_extract_epi64::<0>", |x| _mm_extract_epi64::<0>(x), |x| mm_extract_epi64::<0>(x));
    un_bytes!(t, rng, n, 16, __m128i, 8, 8, "mm_extract_epi64::<1>", |x| _mm_extract_epi64::<1>(x), |x| mm_extract_epi64::<1>(x));
    shufd_all!(t, rng, n, 0 1 27 57 78 85 147 177 228 238 255);
}

#[target_feature(enable = "avx,avx2")]
unsafe fn run_avx2_k9(t: &mut Tally, rng: &mut Rng, n: usize) {
    bin_i256!(t, rng, n, _mm256_madd_epi16, mm256_madd_epi16);
    bin_i256!(t, rng, n, _mm256_packs_epi32, mm256_packs_epi32);
    srai256_all!(t, rng, n, 0 1 2 3 4 5 6 7 8 9 10 11 12 13 14 15 16 17 18 19 20 21 22 23 24 25 26 27 28 29 30 31 32 33 64 128 255);
    un_bytes!(t, rng, n, 16, __m128i, 32, 32, "mm256_cvtepu8_epi16", _mm256_cvtepu8_epi16, mm256_cvtepu8_epi16);
    ins128!(t, rng, n, "mm256_inserti128_si256::<0>", |x, y| _mm256_inserti128_si256::<0>(x, y), |x, y| mm256_inserti128_si256::<0>(x, y));
    ins128!(t, rng, n, "mm256_inserti128_si256::<1>", |x, y| _mm256_inserti128_si256::<1>(x, y), |x, y| mm256_inserti128_si256::<1>(x, y));
    ins128!(t, rng, n, "mm256_insertf128_si256::<0>", |x, y| _mm256_insertf128_si256::<0>(x, y), |x, y| mm256_insertf128_si256::<0>(x, y));
    ins128!(t, rng, n, "mm256_insertf128_si256::<1>", |x, y| _mm256_insertf128_si256::<1>(x, y), |x, y| mm256_insertf128_si256::<1>(x, y));
    un_bytes!(t, rng, n, 32, __m256i, 16, 16, "mm256_extracti128_si256::<0>", |x| _mm256_extracti128_si256::<0>(x), |x| mm256_extracti128_si256::<0>(x));
    un_bytes!(t, rng, n, 32, __m256i, 16, 16, "mm256_extracti128_si256::<1>", |x| _mm256_extracti128_si256::<1>(x), |x| mm256_extracti128_si256::<1>(x));
    // the upper half of the cast result is undefined by the ISA: only the low 16 bytes are compared
    un_bytes!(t, rng, n, 16, __m128i, 32, 16, "mm256_castsi128_si256 (low half)", _mm256_castsi128_si256, mm256_castsi128_si256);
    un_bytes!(t, rng, n, 32, __m256i, 16, 16, "mm256_castsi256_si128", _mm256_castsi256_si128, mm256_castsi256_si128);
}

fn main() {
    let n: usize = std::env::args().nth(1).and_then(|s| s.parse().ok()).unwrap_or(200000);
    let mut t = Tally { failed: false };
    let mut rng = Rng(0x9E3779B97F4A7C15);
    let sse = is_x86_feature_detected!("sse4.1") && is_x86_feature_detected!("ssse3");
    let avx = is_x86_feature_detected!("avx2");
    if sse {
        unsafe { run_sse(&mut t, &mut rng, n) };
        unsafe { run_sse_k9(&mut t, &mut rng, n) };
    } else {
        println!("E4 self-test: host CPU lacks SSE4.1/SSSE3 - 128-bit models unvalidated");
    }
    if avx {
        unsafe { run_avx2(&mut t, &mut rng, n) };
        unsafe { run_avx2_k9(&mut t, &mut rng, n) };
    } else {
        println!("E4 self-test: host CPU lacks AVX2 - 256-bit models unvalidated");
    }
    if t.failed {
        println!("E4 self-test: MISMATCH between a model and the host CPU");
        std::process::exit(1);
    }
    println!("E4 self-test: {} ({} random vectors per model, seed fixed)",
        if sse && avx { "all models agree with the host CPU" } else if sse { "128-bit models agree with the host CPU; 256-bit unvalidated" } else { "unvalidated" }, n);
}
RUST_EOF
# every `pub fn mm*` of the model file must be exercised by the test program
missing=0
for m in $(sed -n 's/^ *pub fn \(mm[0-9]*_[a-z0-9_]*\).*/\1/p' "$MODELS"); do
  grep -q "\b$m\b" "$WORK/main.rs" || { echo "model $m has no differential test" >&2; missing=1; }
done
[ "$missing" = 0 ] || exit 2
SIMD_MODELS="$MODELS" rustc --edition 2021 -C opt-level=2 -C debug-assertions=on -o "$WORK/selftest" "$WORK/main.rs" 2> "$WORK/rustc.log" || { cat "$WORK/rustc.log" >&2; exit 2; }
"$WORK/selftest" "$N"
