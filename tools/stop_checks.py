#!/usr/bin/env python3
"""Stop running ./check processes (optionally only for one property) and their cbmc children."""
import os, signal, sys
want = sys.argv[1] if len(sys.argv) > 1 else None
me = os.getpid()
for p in os.listdir("/proc"):
    if not p.isdigit() or int(p) == me:
        continue
    try:
        argv = open("/proc/%s/cmdline" % p, "rb").read().split(b"\0")
    except Exception:
        continue
    argv = [a.decode(errors="replace") for a in argv if a]
    if len(argv) >= 3 and argv[0].endswith("python3") and argv[1].endswith("check") and (want is None or argv[2] == want):
        os.kill(int(p), signal.SIGTERM)
        print("stopped", p, argv[1:4])
    elif argv and os.path.basename(argv[0]) == "cbmc" and want is None:
        os.kill(int(p), signal.SIGKILL)
