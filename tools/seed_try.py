#!/usr/bin/env python3
"""Confirm a seeded defect delivered by a sub-agent and run the checks against it.

usage: seed_try.py <PROP> <mN> [--checks C04,C03] [--features rayon] [--skip-confirm]
  1. in the scratch worktree /tmp/seed/<PROP>: demo passes without the patch, fails with it,
     the pinned suite (65 stable tests) still passes with it;
  2. apply the patch to /repo, run ./check <id> --tier quick for each id, undo (git checkout -- .);
  3. store patch.diff, demo.rs, meta.json under /verif/seeded/<PROP>-<mN>/.
"""
import json
import os
import re
import shutil
import subprocess
import sys
import time

ROOT = os.path.dirname(os.path.dirname(os.path.abspath(__file__)))


def sh(cmd, cwd=None, timeout=3600):
    p = subprocess.run(cmd, shell=True, cwd=cwd, capture_output=True, text=True, timeout=timeout)
    return p.returncode, p.stdout + p.stderr


def main():
    prop, mn = sys.argv[1], sys.argv[2]
    args = sys.argv[3:]
    checks = [prop]
    features = ""
    if "--checks" in args:
        checks = args[args.index("--checks") + 1].split(",")
    if "--features" in args:
        features = "--features " + args[args.index("--features") + 1]
    wt = "/tmp/seed/%s" % prop
    out = "/tmp/seed/%s-out/%s" % (prop, mn)
    dest = os.path.join(ROOT, "seeded", "%s-%s" % (prop, mn))
    os.makedirs(dest, exist_ok=True)
    patch = os.path.join(out, "patch.diff")
    demo = os.path.join(out, "demo.rs")
    meta = dict(property=prop, id="%s-%s" % (prop, mn), ran=[])
    if os.path.exists(os.path.join(dest, "meta.json")):
        meta = json.load(open(os.path.join(dest, "meta.json")))
    if os.path.exists(patch):
        shutil.copy(patch, os.path.join(dest, "patch.diff"))
        shutil.copy(demo, os.path.join(dest, "demo.rs"))
        if os.path.exists(os.path.join(out, "README.md")):
            shutil.copy(os.path.join(out, "README.md"), os.path.join(dest, "README.md"))
    patch = os.path.join(dest, "patch.diff")
    demo = os.path.join(dest, "demo.rs")
    if "--skip-confirm" not in args:
        sh("git checkout -- . && git clean -fdq tests src", cwd=wt)
        shutil.copy(demo, os.path.join(wt, "tests", "seed_demo.rs"))
        rc0, o0 = sh("cargo test -j 6 --offline %s --test seed_demo 2>&1 | tail -15" % features, cwd=wt)
        ok_without = "test result: ok" in o0
        rc, o = sh("git apply %s" % patch, cwd=wt)
        applies = rc == 0
        rc1, o1 = sh("cargo test -j 6 --offline %s --test seed_demo 2>&1 | tail -25" % features, cwd=wt)
        fails_with = "test result: FAILED" in o1 or "panicked" in o1 or "signal: 11" in o1 or "SIGSEGV" in o1 or "SIGABRT" in o1
        os.remove(os.path.join(wt, "tests", "seed_demo.rs"))
        rcb, ob = sh("python3 %s/tools/run_baseline.py %s" % (ROOT, wt))
        meta.update(applies_cleanly=applies, demo_passes_without=ok_without, demo_fails_with=fails_with,
                    suite_still_passes=rcb == 0, suite_summary=ob.strip().splitlines()[-1] if ob.strip() else "",
                    confirmed=applies and ok_without and fails_with and rcb == 0)
        sh("git checkout -- . && git clean -fdq tests src && rm -rf target", cwd=wt)
        print("confirm:", {k: meta[k] for k in ("applies_cleanly", "demo_passes_without", "demo_fails_with", "suite_still_passes")})
        if not meta["confirmed"]:
            print(o0[-800:], o1[-1200:], ob[-500:])
    json.dump(meta, open(os.path.join(dest, "meta.json"), "w"), indent=1)
    if checks == ["none"]:
        return
    # run the checks against a scratch worktree of /repo's HEAD with the patch applied (FV_REPO), so that /repo itself
    # is never left modified and several seeds can be tried in parallel
    run_wt = "/tmp/seedrun/%s-%s" % (prop, mn)
    sh("git -C /repo worktree remove --force %s" % run_wt)
    os.makedirs("/tmp/seedrun", exist_ok=True)
    rc, o = sh("git -C /repo worktree add --detach %s HEAD" % run_wt)
    rc, o = sh("git apply %s" % patch, cwd=run_wt)
    if rc != 0:
        print("patch does not apply to /repo HEAD:", o)
        meta["applies_to_repo_head"] = False
        json.dump(meta, open(os.path.join(dest, "meta.json"), "w"), indent=1)
        sh("git -C /repo worktree remove --force %s" % run_wt)
        sys.exit(3)
    meta["applies_to_repo_head"] = True
    try:
        for cid in checks:
            t0 = time.time()
            rc, o = sh("FV_REPO=%s FV_EVID_DIR=/tmp/seedrun/evid-%s-%s ./check %s --tier quick" % (run_wt, prop, mn, cid), cwd=ROOT, timeout=7200)
            lines = [l for l in o.splitlines() if l.startswith(("VIOLATION", "INCONCLUSIVE", "KNOWN-FINDING")) or " tier=" in l]
            rec = dict(check=cid, exit=rc, wall_s=round(time.time() - t0), detected=rc == 1, output=lines[:12],
                       repo_head=subprocess.run("git -C /repo rev-parse --short HEAD", shell=True, capture_output=True, text=True).stdout.strip())
            meta["ran"] = [r for r in meta.get("ran", []) if r["check"] != cid] + [rec]
            print(cid, "exit", rc, "\n  " + "\n  ".join(lines[:12]))
    finally:
        sh("git -C /repo worktree remove --force %s" % run_wt)
        shutil.rmtree("/tmp/seedrun/evid-%s-%s" % (prop, mn), ignore_errors=True)
    json.dump(meta, open(os.path.join(dest, "meta.json"), "w"), indent=1)


main()
