#!/usr/bin/env python3
"""Validate /verif/MANIFEST.json and every /verif/evidence/<id>.json against the schemas in /root/.vp (needs jsonschema: run with python3-vt).
Also checks the level-specific consistency rules learnt from `vp check`: proof => discharged == obligations > 0;
model_checking => states, transitions, traces_validated_against_impl present."""
import glob
import json
import os
import sys

import jsonschema

ROOT = os.path.dirname(os.path.dirname(os.path.abspath(__file__)))
bad = 0
m = json.load(open(os.path.join(ROOT, "MANIFEST.json")))
jsonschema.validate(m, json.load(open("/root/.vp/MANIFEST.schema.json")))
sch = json.load(open("/root/.vp/EVIDENCE.schema.json"))
ids = [c["property_id"] for c in m["checks"]]
for pid in ids:
    p = os.path.join(ROOT, "evidence", pid + ".json")
    if not os.path.exists(p):
        print("MISSING", pid)
        bad += 1
        continue
    e = json.load(open(p))
    try:
        jsonschema.validate(e, sch)
    except jsonschema.ValidationError as x:
        print("INVALID", pid, x.message[:200])
        bad += 1
        continue
    c = e["coverage"]
    lvl = e["level"] if isinstance(e["level"], str) else e["level"].get("category")
    note = ""
    if lvl == "proof" and not (c.get("obligations", 0) > 0 and c.get("obligations") == c.get("discharged")):
        note = "proof level but obligations %s != discharged %s" % (c.get("obligations"), c.get("discharged"))
    if lvl == "model_checking" and not all(k in c for k in ("states", "transitions", "traces_validated_against_impl")):
        note = "model_checking level without states/transitions/traces_validated_against_impl"
    if e.get("violations"):
        note += " VIOLATIONS %s" % e["violations"]
    print("%s %-15s tier=%s wall=%ss %s" % (pid, lvl, e.get("tier"), e.get("wall_s"), note))
    bad += 1 if note else 0
sys.exit(1 if bad else 0)
