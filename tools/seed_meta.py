#!/usr/bin/env python3
"""Attach the human summary ('what it breaks / what it needs to manifest') to /verif/seeded/<id>/meta.json."""
import json
import os

ROOT = os.path.dirname(os.path.dirname(os.path.abspath(__file__)))
S = {
 "C04-m1": ("check_crop_box: size test rewritten with saturating_add - an overhanging box is accepted when the image dimension is exactly u32::MAX", "image width/height == u32::MAX and non-zero origin (user-defined IntoImageView)"),
 "C04-m2": ("ImageRef::new checks alignment of &buffer[..size] only - a misaligned non-empty buffer is accepted for a zero-sized image", "zero width/height, non-empty buffer at an odd address, multi-byte pixel type"),
 "C06-m1": ("mul_div_65535 rounding constant 0x8000 -> 0x7fff", "16-bit pairs with c*a = 32768 mod 65535 (32768 of 2^32 pairs)"),
 "C06-m2": ("f32x4/avx2 divide_alpha_8_pixels: zero-alpha mask _CMP_NEQ_UQ -> _CMP_GT_OQ (negative / NaN alpha give colour 0)", "AVX2, F32x4, negative alpha, 8-pixel main loop"),
 "C08-m1": ("calculate_max_v_parts_number divides by the area truncated to u32", "width a multiple of 65536 (area multiple of 2^32): division by zero"),
 "C08-m2": ("TypedCroppedImageMut::split_by_width_mut re-crops the column bands with top = 0 instead of self.top", "rayon, >= 2 threads, cropped destination with top > 0, vertical pass writes the destination"),
 "C11-m1": ("nearest column clamp tightened to floor(crop.left + crop.width) - 1", "sub-pixel crop whose right edge is fractional"),
 "C11-m2": ("TypedImageRef::iter_rows_with_step uses (y + 1e-5) as usize", "crop top a few 1e-6 below an integer, or > 50000 destination rows"),
 "C14-m1": ("TypedCroppedImageMut::split_by_height_mut bounds the band by the PARENT height", "invalid band that overruns the crop but fits the parent"),
 "C14-m2": ("TypedCroppedImageMut::split_by_width_mut uses self.left as the row offset of the strips", "crop with left != top"),
 "C17-m1": ("i32 -> u16 rounding add done in u32 without saturation: the top 16384 values wrap to 0", "I32 component within half a U16 step of i32::MAX"),
 "C17-m2": ("change_type_of_pixel_components_typed: size check || -> &&", "source and destination that differ in exactly one dimension"),
 "C05-m1": ("TypedCroppedImageMut::iter_rows_mut takes `height` rows instead of `height - start_row`", "SIMD back-end, cropped destination not flush with the parent's bottom, horizontal-only pass, height % 4 != 0"),
 "C05-m2": ("MulDiv::divide_alpha_typed size check != -> > (destination larger than the source accepted)", "destination taller / wider than the source"),
 "C12-m1": ("iter_cropped_rows uses crop.top as first column", "same-size integer crop with left != top"),
 "C12-m2": ("do_convolution need_horizontal compares dst_width with crop.height", "width matches, height does not, crop.height != dst_width, non-interpolating filter"),
 "C03-m1": ("u8x3 SSE4/AVX2 horizontal kernel: 8-byte load guard saturating_sub(2) -> (1): reads 2 bytes past the row", "U8x3, SIMD, width-only resize, exactly-sized buffer before unreadable memory"),
 "C03-m2": ("get_temp_image_from_buffer grows on capacity() instead of len()", "three calls with slowly growing scratch sizes on one Resizer"),
 "C15-m1": ("centering clamp moved from fit_src_into_dst_size to the options builder", "centering outside [0,1] passed directly (CropBox::fit_src_into_dst_size or SrcCropping::FitIntoDestination)"),
 "C15-m2": ("fit_src_into_dst_size: crop side .max(1.0)", "extreme aspect mismatch (exact crop thinner than one source pixel)"),
 "C01-m1": ("do_convolution need_vertical tests crop.left instead of crop.top for fractionality", "fractional top with integer left and matching height"),
 "C01-m2": ("Normalizer16::new precision loop capped at 14 bits", "very large downscale ratio (> 100:1) of u8 images"),
 "C10-m1": ("u8x4/avx2 horiz_convolution_one_row: initial accumulator of the >= 8 tap branch doubled", "AVX2, U8x4, >= 8 taps (downscale), bottom height % 4 rows"),
 "C10-m2": ("vertical_u8/sse4 scalar tail: rounding constant (1 << PRECISION) - 1", "SSE4.1, row length in bytes % 4 != 0, windows with positive coefficient drift"),
 "C16-m1": ("linear_to_srgb branch threshold 0.0031308 -> 0.00031308", "U16 linear source with near-black values (entries 21..205 of the 65536-entry backward table)"),
 "C16-m2": ("map_image_typed: 2-component images use gap step 4 (alpha of even pixels table-mapped)", "U8x2 / U16x2 two-image mapping with semi-transparent alpha at an even column"),
 "C18-m1": ("PRECISION_BITS 32-8-2 -> 32-8+2: precision up to 25, i32 accumulators overflow", "downscale > 512x with components >= 128"),
 "C18-m2": ("vertical_u8/avx2 scalar tail: rounding constant (1 << PRECISION) - 1", "AVX2, row bytes % 4 != 0, windows with positive coefficient drift"),
 "C02-m1": ("u16x4/sse4 multiply_alpha_2_pixels rounding constant 0x8000 -> 0x7fff", "SSE4.1 (or AVX2 row tail), U16x4, pairs with c*a = 32768 mod 65535"),
 "C02-m2": ("vertical_u8/sse4 vert_convolution_into_one_row: `src_x += 4` removed after the 4-byte block", "SSE4.1, vertical pass row length in bytes 5,6,7 mod 8"),
 "C07-m1": ("resample_convolution sizes the premultiply scratch image only down to the crop bottom: multiply_alpha fails silently, alpha handling skipped", "alpha pixel type, crop not flush with the bottom edge, size change, colour under alpha = 0"),
 "C07-m2": ("alpha branch of resample_convolution always passes adaptive_kernel_size = true", "Interpolation + alpha pixel type + down-scaling"),
 "C09-m1": ("get_temp_image_from_buffer grows on capacity() instead of len()", "three calls with slowly growing sizes on one Resizer"),
 "C09-m2": ("Resizer::set_cpu_extensions hands the PREVIOUS back-end to MulDiv", "F32x2 / F32x4 with alpha after a history of back-end selections"),
 "C13-m1": ("default ImageView::iter_rows_with_step: next_row_y starts at 0 instead of start_y", "Nearest / SuperSampling from a TypedImage or cropped source with start_y >= 1"),
 "C13-m2": ("TypedCroppedImageMut::iter_rows_mut: iter_rows_mut(top).take(h - s).skip(s)", "SIMD horizontal kernels' leftover rows (height % 4 != 0) into a cropped destination"),
}
for sid, (what, needs) in S.items():
    mp = os.path.join(ROOT, "seeded", sid, "meta.json")
    if not os.path.exists(mp):
        continue
    m = json.load(open(mp))
    m["breaks"] = what
    m["needs_to_manifest"] = needs
    m["summary"] = "%s — needs: %s" % (what, needs)
    m["source"] = "independent sub-agent given only the property text and a scratch worktree"
    json.dump(m, open(mp, "w"), indent=1)
print("updated")
