#!/usr/bin/env python3
"""Run the repository's pinned suite (fallback form of BASELINE.json's command)
in a given checkout and compare the passing set with BASELINE.stable_pass.
usage: run_baseline.py [repo_dir]   exit 0 iff every stable_pass test passes."""
import json
import re
import subprocess
import sys

repo = sys.argv[1] if len(sys.argv) > 1 else "/repo"
base = json.load(open("/root/.vp/BASELINE.json"))
# cargo prints "Running ..." on stderr and results on stdout; re-run merged to keep order
p = subprocess.run("cargo test -j 8 --workspace --no-fail-fast --offline 2>&1", cwd=repo, shell=True,
                   capture_output=True, text=True)
out = p.stdout
passed = set()
cur = None
for ln in out.splitlines():
    m = re.match(r"\s*Running (unittests )?(\S+) \((\S+)\)", ln)
    if m:
        path, exe = m.group(2), m.group(3)
        crate = "resizer" if "/resizer-" in exe else "fast_image_resize"
        if m.group(1):
            cur = (crate, "bin/resizer" if crate == "resizer" else None)
        else:
            cur = (crate, re.sub(r"^tests/|\.rs$", "", path))
        continue
    m = re.match(r"test (\S+) \.\.\. ok", ln)
    if m and cur:
        crate, b = cur
        passed.add("%s::%s%s" % (crate, (b + "::") if b else "", m.group(1)))
missing = [t for t in base["stable_pass"] if t not in passed]
print("stable_pass: %d, passing now: %d, missing: %d" % (len(base["stable_pass"]), len(base["stable_pass"]) - len(missing), len(missing)))
for t in missing:
    print("  MISSING", t)
sys.exit(1 if missing else 0)
