#!/usr/bin/env python3
"""Regenerate /verif/MANIFEST.json from contracts/properties_map.py."""
import json
import os
import sys

ROOT = os.path.dirname(os.path.dirname(os.path.abspath(__file__)))
sys.path.insert(0, ROOT)
from fv import registry  # noqa: E402

PROPS = registry.props()
UNITS = registry.units()
all_ids = [json.loads(l)["id"] for l in open(os.path.join(ROOT, "properties.jsonl"))]

checks = []
for pid in all_ids:
    if pid not in PROPS:
        continue
    P = PROPS[pid]
    checks.append(dict(
        property_id=pid,
        quick_cmd="./check %s --tier quick" % pid,
        thorough_cmd="./check %s --tier thorough" % pid,
        evidence_file="evidence/%s.json" % pid,
        replay_cmd_template="./check %s --replay {path}" % pid,
        engine="fv",
        level_claimed=dict(category=P["level"], text=P["level_text"], design_ref=P.get("design_ref", "DESIGN.md §4 " + pid)),
        level_note=P["level_note"],
        technique=P.get("technique", "contract-based deductive verification of the real code: Verus function contracts and loop "
                                     "invariants on functions extracted verbatim from /repo; Kani function contracts and "
                                     "loop-free full-domain harnesses on an additive cfg(kani) overlay of /repo/src"),
    ))

na = []
na_path = os.path.join(ROOT, "contracts", "not_applicable.json")
NA = json.load(open(na_path)) if os.path.exists(na_path) else {}
for pid in all_ids:
    if pid not in PROPS:
        na.append(dict(property_id=pid, reason=NA.get(pid, "not yet under contract in this revision of /verif; no check is claimed")))

man = dict(
    version=1,
    setup_cmd="./check --setup",
    hooks=dict(
        guard="kani",
        enable="no hook lives in /repo: contracts are woven as an additive #[cfg(kani)] overlay into a scratch copy of /repo/src "
               "by /verif/fv/kani.py (cfg `kani` is set only by cargo-kani), Verus functions are extracted verbatim by /verif/fv/verus.py",
        baseline_off_cmd="cd /repo && cargo test --workspace --no-fail-fast --offline",
        source_commits=[],
        add_only=True,
    ),
    engines=[
        dict(name="fv", path="fv/", serves_properties=[c["property_id"] for c in checks],
             kind_free_text="contract weaver + runners: Verus 0.2026.09.13 (E1), Kani 0.68/CBMC 6.11 function contracts and "
                            "loop-free harnesses (E2), bounded Kani harnesses as labelled stand-ins (E3)"),
    ],
    checks=checks,
    notes="Exit codes: 0 all obligations discharged (KNOWN-FINDING lines allowed), 1 VIOLATION, 2 INCONCLUSIVE (tool limit, lost "
          "anchor, timeout) - never folded into 0 or 1. Bounded Kani harnesses are reported under coverage.bounded_checks and never "
          "counted in coverage.obligations/discharged. Clauses of a property that no contract decides are listed in "
          "coverage.not_decided of its evidence file and in DESIGN.md.",
    not_applicable=na,
)
with open(os.path.join(ROOT, "MANIFEST.json"), "w") as f:
    json.dump(man, f, indent=1)
print("MANIFEST.json: %d checks, %d not_applicable" % (len(checks), len(na)))
